#!/bin/bash
# build.sh <scratch-dir> [race|norace] [src-dir, default /repo] : rewrite /repo's working tree into <scratch-dir> and build the harness test binary there
set -e
export GOFLAGS=-mod=mod GOPROXY=off GOSUMDB=off GOTOOLCHAIN=local
S="$1"; RACE="$2"; SRC="${3:-/repo}"
V=/verif
mkdir -p "$S/src"
"$V/bin/simprep" -src "$SRC" -dst "$S/src" -report "$S/simprep.json"
for f in "$V"/harness/*.go; do cp "$f" "$S/src/zz_$(basename "${f%.go}")_test.go"; done
cp "$SRC/go.mod" "$S/src/go.mod"
cat "$SRC/go.sum" "$V/sim/go.sum" 2>/dev/null > "$S/src/go.sum" || cp "$SRC/go.sum" "$S/src/go.sum"
cat >> "$S/src/go.mod" <<EOM

require verif/sim v0.0.0
require github.com/anishathalye/porcupine v1.3.0
replace verif/sim => $V/sim
EOM
cd "$S/src"
if [ "$RACE" = race ]; then
  go1.26.8 test -c -vet=off -tags verif -race -o "$S/sim.race.test" . 
else
  go1.26.8 test -c -vet=off -tags verif -o "$S/sim.test" .
fi
