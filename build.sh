#!/bin/bash
# build.sh <scratch-dir> [race|norace] [src-dir, default /repo] : rewrite /repo's working tree into <scratch-dir> and build the harness test binary there
set -e
export GOFLAGS=-mod=mod GOPROXY=off GOSUMDB=off GOTOOLCHAIN=local
S="$1"; RACE="$2"; SRC="${3:-/repo}"
V="${VERIF_DIR:-$(cd "$(dirname "${BASH_SOURCE[0]}")" && pwd)}"
mkdir -p "$S/src"
"$V/bin/simprep" -src "$SRC" -dst "$S/src" -report "$S/simprep.json"
for f in "$V"/harness/*.go; do cp "$f" "$S/src/zz_$(basename "${f%.go}")_test.go"; done
cp "$SRC/go.mod" "$S/src/go.mod"
cat "$SRC/go.sum" "$V/sim/go.sum" 2>/dev/null > "$S/src/go.sum" || cp "$SRC/go.sum" "$S/src/go.sum"
cat >> "$S/src/go.mod" <<EOM

require verif/sim v0.0.0
require github.com/anishathalye/porcupine v1.3.0
replace verif/sim => $V/sim
EOM
cd "$S/src"
build() {
  if [ "$RACE" = race ]; then
    go1.26.8 test -c -vet=off -tags verif -race -o "$S/sim.race.test" .
  else
    go1.26.8 test -c -vet=off -tags verif -o "$S/sim.test" .
  fi
}
# Harness files that call into the tree's internals beyond the start-up wiring are optional: when the tree under test has
# changed a signature or a field they use, they are left out (recorded in $S/degraded.txt) instead of failing the build
# of every check. check.py refuses only the checks that live in a file that was left out.
OPTIONAL="routes rotation sendfaults inpkg_c15"
rm -f "$S/degraded.txt"
if ! build 2> "$S/build.err"; then
  bad=$(grep -o '^\./zz_[a-z0-9_]*_test\.go' "$S/build.err" | sort -u | sed 's|^\./zz_||; s|_test\.go$||')
  ok=1
  [ -n "$bad" ] || ok=0
  for b in $bad; do case " $OPTIONAL " in *" $b "*) ;; *) ok=0;; esac; done
  if [ $ok = 1 ]; then
    for b in $bad; do rm -f "zz_${b}_test.go"; echo "$b" >> "$S/degraded.txt"; done
    cp "$S/build.err" "$S/degraded.err"
    if ! build 2> "$S/build.err"; then cat "$S/build.err" >&2; exit 1; fi
  else
    cat "$S/build.err" >&2; exit 1
  fi
fi
