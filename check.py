#!/usr/bin/env python3
"""Driver of the deterministic-simulation checks.

  check.py <property> [--tier quick|thorough] [--seed N]
  check.py <property> --replay <file>

Rebuilds a rewritten scratch copy of /repo's working tree, fans simulated
worlds out over worker processes, confirms and minimises violations, writes
/verif/evidence/<property>.json, prints VIOLATION / KNOWN-FINDING lines.
Exit codes: 0 held, 1 violation, 2 infrastructure trouble (never a VIOLATION).
"""
import argparse, collections, hashlib, json, os, re, shutil, subprocess, sys, tempfile, time
from concurrent.futures import ThreadPoolExecutor

V = os.path.dirname(os.path.abspath(__file__))
ENV = dict(os.environ, GOFLAGS="-mod=mod", GOPROXY="off", GOSUMDB="off", GOTOOLCHAIN="local")

# per property: (world kind for the evidence text, race build?, quick runs, thorough runs, runs per process)
PROPS = {
    "C01": dict(runs=(400000, 40000000), chunk=100),
    "C02": dict(runs=(400000, 40000000), chunk=150),
    "C03": dict(runs=(400000, 40000000), chunk=150),
    "C04": dict(runs=(400000, 40000000), chunk=100),
    "C05": dict(runs=(400000, 40000000), chunk=100),
    "C06": dict(runs=(400000, 40000000), chunk=150),
    "C07": dict(runs=(400000, 40000000), chunk=150),
    "C08": dict(runs=(400000, 40000000), chunk=100),
    "C09": dict(runs=(400000, 40000000), chunk=30, race=True),
    "C10": dict(runs=(400000, 40000000), chunk=100),
    "C11": dict(runs=(400000, 40000000), chunk=100),
    "C12": dict(runs=(400000, 40000000), chunk=100),
    "C13": dict(runs=(400000, 40000000), chunk=150),
    "C15": dict(runs=(400000, 40000000), chunk=100),
    "C17": dict(runs=(400000, 40000000), chunk=100),
    "C18": dict(runs=(400000, 40000000), chunk=150),
    "C19": dict(runs=(400000, 40000000), chunk=100),
    "C20": dict(runs=(400000, 40000000), chunk=100),
    "SMOKE": dict(runs=(200, 2000), chunk=50),
    "SIMSELF": dict(runs=(48, 480), chunk=3),
}
BUDGET = {"quick": 25.0, "thorough": 600.0}  # seconds of exploration after the build: the run count is whatever fits
LEVEL = collections.defaultdict(lambda: "exploration", {"C20": "fault_enumeration"})


def log(*a):
    print(*a, file=sys.stderr, flush=True)


# rules whose verdict rests on a measurement of the real process rather than on the simulated history
MEASURED_RULES = {"allocation-out-of-proportion"}


def die2(msg):
    print("INFRASTRUCTURE: " + msg, flush=True)
    sys.exit(2)


def build(scratch, race, src="/repo"):
    t0 = time.time()
    if not os.path.exists(os.path.join(V, "bin", "simprep")):
        r = subprocess.run(["bash", os.path.join(V, "setup.sh")], env=ENV, capture_output=True, text=True)
        if r.returncode != 0:
            die2("setup failed:\n" + r.stdout + r.stderr)
    args = ["bash", os.path.join(V, "build.sh"), scratch, "race" if race else "norace", src]
    r = subprocess.run(args, env=ENV, capture_output=True, text=True)
    if r.returncode != 0:
        die2("build of the rewritten scratch copy failed (not a violation):\n" + r.stdout[-4000:] + r.stderr[-6000:])
    rep = {}
    try:
        rep = json.load(open(os.path.join(scratch, "simprep.json")))
    except Exception:
        pass
    return os.path.join(scratch, "sim.race.test" if race else "sim.test"), rep, time.time() - t0


def run_bin(binary, args, timeout, cwd):
    # history_size=7: the detector drops a report when it cannot restore the stack of the earlier access
    # from the per-goroutine trace; with the default size that depends on what else the process ran
    env = dict(ENV, GORACE="halt_on_error=0 history_size=7 log_path=" + os.path.join(cwd, "race"))
    try:
        r = subprocess.run([binary, "-test.run", "TestSim", "-test.timeout", "0"] + args, env=env, capture_output=True, timeout=timeout, cwd=cwd)
    except subprocess.TimeoutExpired as e:
        return None, (e.stdout or b"").decode("utf8", "replace"), "timeout after %ss" % timeout
    out = r.stdout.decode("utf8", "replace")
    err = r.stderr.decode("utf8", "replace")
    results = []
    for line in out.split("\n"):
        if line.startswith("SIMRESULT "):
            try:
                results.append(json.loads(line[10:]))
            except Exception as ex:
                return None, out, "bad result line: %s" % ex
    if r.returncode != 0 and not results:
        return None, out + err, "worker exit code %d" % r.returncode
    tail = ""
    if r.returncode != 0:
        tail = (out + err)[-3000:]
    return results, tail, None


def chunk_args(prop, seed, first, n, tier, known):
    return ["-sim.prop", prop, "-sim.seed", str(seed), "-sim.first", str(first), "-sim.runs", str(n), "-sim.tier", tier, "-sim.known", known, "-sim.recheck", "50"]


def annotate(plan):
    """Adds a readable rendition of every payload next to its base64 form (ignored on replay)."""
    import base64
    for op in plan.get("ops") or []:
        for k in ("data", "body"):
            if isinstance(op.get(k), str) and op[k]:
                try:
                    raw = base64.b64decode(op[k], validate=True)
                except Exception:
                    continue
                op["_" + k + "_text"] = "".join(chr(b) if 32 <= b < 127 or b == 10 else "\\x%02x" % b for b in raw.replace(b"\r\n", b"\n")).split("\n")


def write_trace(binary, scratch, path):
    """The minimised run once more with the kernel's step trace on: every scheduling decision (which goroutine ran,
    out of how many runnable), every delivery, fault and emission with its simulated time. Human-readable companion
    of the replay file; the replay file alone reproduces the run."""
    try:
        env = dict(ENV, GORACE="halt_on_error=0 history_size=7 log_path=" + os.path.join(scratch, "race"))
        r = subprocess.run([binary, "-test.run", "TestSim", "-test.timeout", "0", "-sim.replay", path, "-sim.trace"], env=env, capture_output=True, timeout=120, cwd=scratch)
        lines = [l for l in r.stderr.decode("utf8", "replace").split("\n") if re.match(r"^\d+ ", l)]
        if len(lines) > 40000:
            lines = lines[:20000] + ["... %d lines left out ..." % (len(lines) - 40000)] + lines[-20000:]
        with open(path[:-5] + ".trace.txt", "w") as f:
            f.write("# step simulated-time what   (run <goroutine> <operation> (of <runnable>): a scheduling decision; event: a delivery or timer; net/emit: what the simulated network saw)\n")
            f.write("\n".join(lines) + "\n")
    except Exception as ex:
        log("trace not written: %s" % ex)


def load_known():
    p = os.path.join(V, "known_findings.json")
    if not os.path.exists(p):
        return []
    return json.load(open(p)).get("findings", [])


def match_known(known, prop, v):
    for k in known:
        if k.get("property") != prop or k.get("status", "open") != "open":
            continue
        if k.get("rule") != v.get("rule"):
            continue
        if re.search(k.get("sig_regex", ""), v.get("sig", "")):
            return k
    return None


def vkey(v):
    return (v["rule"], v.get("sig", ""))


def has_violation(results, prop, rule, sig):
    for r in results or []:
        for v in r.get("viol", []):
            if v["prop"] == prop and v["rule"] == rule and v.get("sig", "") == sig:
                return r
    return None


class Minimiser:
    def __init__(self, binary, scratch, prop, plan, rule, sig, deadline):
        self.binary, self.scratch, self.prop, self.rule, self.sig = binary, scratch, prop, rule, sig
        self.plan = plan
        self.deadline = deadline
        self.tried = 0

    def fails(self, plan):
        if time.time() > self.deadline:
            return False
        self.tried += 1
        path = os.path.join(self.scratch, "cand-%d.json" % self.tried)
        json.dump(plan, open(path, "w"))
        res, _, err = run_bin(self.binary, ["-sim.replay", path, "-sim.known", os.path.join(V, "known_findings.json")], 60, self.scratch)
        try:
            os.unlink(path)
        except OSError:
            pass
        if err or not res:
            return False
        return has_violation(res, self.prop, self.rule, self.sig) is not None

    def run(self):
        plan = self.plan
        # 1. drop workload operations (delta debugging, coarse to fine)
        ops = plan.get("ops") or []
        n = 2
        while len(ops) >= 2 and time.time() < self.deadline:
            chunk = max(1, len(ops) // n)
            reduced = False
            i = 0
            while i < len(ops):
                cand = ops[:i] + ops[i + chunk:]
                if cand and self.fails(dict(plan, ops=cand)):
                    ops = cand
                    plan = dict(plan, ops=ops)
                    reduced = True
                else:
                    i += chunk
            if chunk == 1 and not reduced:
                break
            if not reduced:
                n = min(len(ops), n * 2)
            if chunk == 1 and reduced:
                continue
        # 2. switch faults off
        cfg = plan.get("cfg", {})
        f = dict(cfg.get("faults", {}))
        for key in ("DropPct", "DupPct", "SegPct", "ShortReadPct"):
            if f.get(key):
                cand = dict(plan, cfg=dict(cfg, faults=dict(f, **{key: 0})))
                if self.fails(cand):
                    plan = cand
                    cfg = plan["cfg"]
                    f = dict(cfg.get("faults", {}))
        if plan.get("mapPerm"):
            cand = dict(plan, mapPerm=False)
            if self.fails(cand):
                plan = cand
        # 3. shorten the schedule tape towards the canonical schedule
        tape = plan.get("tape") or []
        while tape and time.time() < self.deadline:
            cand = tape[: len(tape) // 2]
            if self.fails(dict(plan, tape=cand)):
                tape = cand
                plan = dict(plan, tape=tape)
            else:
                break
        step = max(1, len(tape) // 8)
        i = 0
        while i < len(tape) and time.time() < self.deadline and step >= 1:
            if any(tape[i:i + step]):
                cand = tape[:i] + [0] * len(tape[i:i + step]) + tape[i + step:]
                if self.fails(dict(plan, tape=cand)):
                    tape = cand
                    plan = dict(plan, tape=tape)
            i += step
        return plan


def main():
    ap = argparse.ArgumentParser()
    ap.add_argument("prop")
    ap.add_argument("--tier", default=os.environ.get("VERIF_TIER", "quick"))
    ap.add_argument("--seed", type=int, default=None)
    ap.add_argument("--replay")
    ap.add_argument("--runs", type=int, default=None)
    ap.add_argument("--budget", type=float, default=None)
    ap.add_argument("--keep", action="store_true")
    ap.add_argument("--src", default="/repo", help="source tree to rewrite (default /repo; other values are for testing seeded changes only)")
    ap.add_argument("--no-evidence", action="store_true")
    a = ap.parse_args()
    prop = a.prop
    if prop not in PROPS:
        die2("unknown property " + prop)
    tier = a.tier if a.tier in ("quick", "thorough") else "quick"
    seed = a.seed
    if seed is None:
        seed = int(os.environ.get("VERIF_SEED", "20260926") or "20260926")
    seed &= (1 << 63) - 1
    spec = PROPS[prop]
    t_start = time.time()
    scratch = tempfile.mkdtemp(prefix="verif-%s-" % prop)
    try:
        code = run_check(a, prop, tier, seed, spec, scratch, t_start)
    finally:
        if not a.keep:
            shutil.rmtree(scratch, ignore_errors=True)
    sys.exit(code)


def run_check(a, prop, tier, seed, spec, scratch, t_start):
    race = bool(spec.get("race"))
    binary, simprep_report, build_s = build(scratch, race, a.src)
    if a.src != "/repo":
        a.no_evidence = True
    log("built in %.1fs" % build_s)
    degraded = []
    if os.path.exists(os.path.join(scratch, "degraded.txt")):
        degraded = open(os.path.join(scratch, "degraded.txt")).read().split()
        errs = open(os.path.join(scratch, "degraded.err")).read()[-1500:]
        own = {"C18": "routes", "C05": "rotation", "C20": "sendfaults"}.get(prop)
        if own in degraded:
            die2("the part of this check that calls the tree's internals directly (harness/%s.go) does not compile against this tree (not a violation):\n%s" % (own, errs))
        log("note: optional harness file(s) %s left out - they do not compile against this tree; this check does not need them%s" % (degraded, " (C15 runs without its purge / re-establishment variants)" if prop == "C15" and "inpkg_c15" in degraded else ""))
    if simprep_report.get("unhandled"):
        log("rewriter left native:", simprep_report["unhandled"])
    known = load_known()
    plans_dir = os.path.join(scratch, "plans")
    os.makedirs(plans_dir, exist_ok=True)

    if a.replay and (json.load(open(a.replay)).get("worlds")):
        # a history across worlds: the violation needs state the program keeps for the life of the process
        plan = json.load(open(a.replay))
        wl, exp = plan["worlds"], plan.get("expect") or {}
        res, tail, err = run_bin(binary, chunk_args(prop, wl["seed"], wl["first"], wl["runs"], wl["tier"], os.path.join(V, "known_findings.json")), 600, scratch)
        if err:
            die2("replay failed: %s\n%s" % (err, tail))
        hit = [x for x in res if str(x.get("seed")) == str(exp.get("seed")) and any(v["prop"] == prop and v["rule"] == exp.get("rule") for v in x.get("viol") or [])]
        if hit:
            v = [v for v in hit[0]["viol"] if v["prop"] == prop and v["rule"] == exp.get("rule")][0]
            print("replayed (%d worlds in one process): property=%s rule=%s sig=%s\n  %s" % (wl["runs"], prop, v["rule"], v.get("sig", ""), v["detail"]))
            print("VIOLATION property=%s replay=%s" % (prop, os.path.abspath(a.replay)))
            return 1
        print("replay does not reproduce the recorded violation on this tree")
        return 0
    if a.replay:
        res, tail, err = run_bin(binary, ["-sim.replay", os.path.abspath(a.replay)], 300, scratch)
        if err:
            die2("replay failed: %s\n%s" % (err, tail))
        plan = json.load(open(a.replay))
        exp = plan.get("expect") or {}
        r = res[0]
        mine = [v for v in r.get("viol", []) if v["prop"] == prop]
        for v in mine:
            print("replayed: property=%s rule=%s sig=%s\n  %s" % (prop, v["rule"], v.get("sig", ""), v["detail"]))
        same = [v for v in mine if v["rule"] == exp.get("rule")]
        if same:
            if exp.get("hash") and exp["hash"] != r.get("hash"):
                print("note: trace hash differs from the recorded one (the tree changed): %s vs %s" % (r.get("hash"), exp["hash"]))
            print("VIOLATION property=%s replay=%s" % (prop, os.path.abspath(a.replay)))
            return 1
        print("replay does not reproduce the recorded violation on this tree")
        return 0

    q, th = spec["runs"]
    total_runs = a.runs or (q if tier == "quick" else th)
    budget = a.budget or BUDGET[tier]
    chunk = spec["chunk"]
    workers = os.cpu_count() or 4
    chunks = [(i, min(chunk, total_runs - i)) for i in range(0, total_runs, chunk)]
    results, infra, tails = [], [], []
    if prop not in ("SIMSELF", "SMOKE"):
        # the simulator checks the parts of itself that the unchanged proxy never exercises (deadlines, connected
        # datagram sockets, half-close): three worlds, a few milliseconds
        res, tail, err = run_bin(binary, ["-sim.prop", "SIMSELF", "-sim.seed", str(seed), "-sim.first", "0", "-sim.runs", "3"], 120, scratch)
        if err or not res or any(r.get("infra") for r in res):
            die2("simulator self-test failed: %s %s" % (err, [r.get("infra") for r in (res or [])][:3]))
    t_explore = time.time()
    deadline = t_explore + budget

    def work(ch):
        first, n = ch
        left = deadline - time.time()
        if left <= 0.5:
            return None
        args = chunk_args(prop, seed, first, n, tier, os.path.join(V, "known_findings.json")) + ["-sim.out", plans_dir, "-sim.budget", "%ds" % max(1, int(left))]
        res, tail, err = run_bin(binary, args, left + 120, scratch)
        for pos, x in enumerate(res or []):
            x["_chunk"] = first
            x["_pos"] = pos
        return (ch, res, tail, err)

    with ThreadPoolExecutor(max_workers=workers) as ex:
        for out in ex.map(work, chunks):
            if out is None:
                continue
            ch, res, tail, err = out
            if err:
                infra.append("chunk %s: %s\n%s" % (ch, err, (tail or "")[-3000:]))
                continue
            if tail:
                tails.append(tail)
            results.extend(res)
    explore_s = time.time() - t_explore

    # ---- aggregate ----
    evaluations = len(results)
    stats, fired = collections.Counter(), collections.Counter()
    distinct = set()
    hashes = set()
    states = set()
    steps = choices = switches = simns = judged = rechecks = 0
    others = collections.Counter()
    groups = collections.OrderedDict()
    samples = []
    for r in results:
        for k, v in (r.get("stats") or {}).items():
            if k.startswith("unattrib-"):
                continue
            stats[k] += v
        for k, v in (r.get("fired") or {}).items():
            fired[k] += v
        steps += r.get("steps", 0)
        choices += r.get("choices", 0)
        switches += r.get("switches", 0)
        simns += r.get("simNs", 0)
        judged += r.get("judged", 0)
        hashes.add(r.get("hash"))
        if r.get("state"):
            states.add(r["state"])
        if r.get("judged", 0) > 0:
            distinct.add((r.get("class", ""), r.get("hash")))
        for i in r.get("infra", []) or []:
            infra.append("seed %s: %s" % (r.get("seed"), i))
        for v in r.get("viol", []) or []:
            if v["prop"] != prop:
                others[v["prop"] + ":" + v["rule"]] += 1
                continue
            groups.setdefault(vkey(v), []).append((r, v))
        if r.get("sample") and len(samples) < 3 and r.get("judged", 0) > 0:
            samples.append({"seed": r["seed"], "variant": r.get("variant", ""), "steps": r.get("steps"), "judgements": r.get("judged"), "case": r["sample"]})
    rechecks = stats.get("determinism-rechecks", 0)

    exit_code = 0
    out_lines = []
    known_seen = collections.OrderedDict()
    reported = []
    for (rule, sig), items in groups.items():
        k = match_known(known, prop, {"rule": rule, "sig": sig})
        if k:
            known_seen.setdefault(k["id"], [k, 0])
            known_seen[k["id"]][1] += len(items)
            continue
        reported.append(((rule, sig), items))
    for kid, (k, n) in known_seen.items():
        out_lines.append("KNOWN-FINDING: property=%s %s [%s, seen %d time(s) in this run]" % (prop, k.get("what", k["id"]), kid, n))

    replay_files = []
    nondet_notes = []
    unconfirmed_measurements = collections.Counter()
    noise_groups = set()
    min_deadline = time.time() + (60 if tier == "quick" else 240)
    for (rule, sig), items in reported[:4]:
        # smallest failing plan first
        items.sort(key=lambda it: it[0].get("steps", 0))
        confirmed = None
        for r, v in items[:3]:
            pf = r.get("planFile")
            if not pf or not os.path.exists(pf):
                continue
            if rule == "data-race":
                # let the replay re-execute until the detector reports again (see DESIGN.md 2.6)
                pl = json.load(open(pf))
                pl["expect"] = {"prop": prop, "rule": rule}
                json.dump(pl, open(pf, "w"))
            res, tail, err = run_bin(binary, ["-sim.replay", pf], 120, scratch)
            if err:
                infra.append("confirmation replay of seed %s failed: %s" % (r["seed"], err))
                continue
            rr = has_violation(res, prop, rule, sig)
            if rr is None and "_chunk" in r and rule != "data-race":
                # Not reproducible from its own plan. Does it reproduce when the worlds that ran before it in the same
                # worker process run before it again? Then the program keeps state for the life of the process
                # (package-level tables, caches) and the violation is a history across worlds: report it with the
                # shortest run of worlds (ending with this one) that still shows it.
                def chunk_hit(start):
                    cres, _, cerr = run_bin(binary, chunk_args(prop, seed, start, r["_chunk"] + r["_pos"] + 1 - start, tier, os.path.join(V, "known_findings.json")), 300, scratch)
                    if cerr:
                        return None
                    for x in cres:
                        if x.get("seed") == r["seed"] and has_violation([x], prop, rule, sig):
                            return x
                    return None
                last = r["_chunk"] + r["_pos"]
                start = r["_chunk"]
                x = chunk_hit(start)
                if x is not None and chunk_hit(start) is not None:
                    # shrink the prefix
                    lo = start
                    for _ in range(8):
                        mid = (lo + last + 1) // 2
                        if mid <= lo or mid > last:
                            break
                        if chunk_hit(mid) is not None:
                            lo = mid
                        else:
                            break
                    detail = next((vv["detail"] for vv in x.get("viol", []) if vv["prop"] == prop and vv["rule"] == rule and vv.get("sig", "") == sig), v["detail"])
                    rdir = os.path.join(V, "replays") if a.src == "/repo" else os.path.join(tempfile.gettempdir(), "verif-seeded-replays")
                    os.makedirs(rdir, exist_ok=True)
                    path = os.path.join(rdir, "%s-%s-%s.worlds.json" % (prop, re.sub(r"[^A-Za-z0-9]+", "-", rule), r["seed"]))
                    json.dump({"prop": prop, "worlds": {"seed": seed, "first": lo, "runs": last - lo + 1, "tier": tier},
                               "note": "the violation does not reproduce from the world's own plan in a fresh process, but does whenever these worlds run before it in one process: the program keeps state across worlds (package-level state that outlives a configuration)",
                               "expect": {"prop": prop, "rule": rule, "sig": sig, "seed": r["seed"], "detail": detail}}, open(path, "w"), indent=1)
                    replay_files.append(path)
                    out_lines.append("violation: property=%s rule=%s sig=%s seed=%s after %d earlier world(s) in the same process (%d runs hit it)\n  %s" % (prop, rule, sig, r["seed"], last - lo, len(items), detail.replace("\n", "\n  ")[:1500]))
                    out_lines.append("VIOLATION property=%s replay=%s" % (prop, path))
                    exit_code = 1
                    confirmed = None
                    break
            if rr is None and rule in MEASURED_RULES and res and res[0].get("hash") == r.get("hash"):
                # The execution replayed exactly (same trace hash); what differs is a measurement of the real process
                # (bytes allocated), the one observable of a world that the simulator does not own. A verdict that a
                # fresh process does not repeat is measurement noise, not a violation and not a determinism failure.
                unconfirmed_measurements[rule] += 1
                continue
            if rr is None:
                infra.append("determinism: violation %s/%s of seed %s did not replay in a fresh process (hash %s vs %s)" % (rule, sig, r["seed"], r.get("hash"), res[0].get("hash") if res else None))
                continue
            if rr.get("hash") != r.get("hash"):
                # the same violation reproduces but the event log differs: the program under test reads a
                # source of nondeterminism outside the simulator's seams (e.g. a changed tree that calls
                # crypto/rand or reads the wall clock). Require it to reproduce once more.
                res2, _, err2 = run_bin(binary, ["-sim.replay", pf], 120, scratch)
                if err2 or has_violation(res2, prop, rule, sig) is None:
                    infra.append("determinism: violation %s/%s of seed %s replays only sometimes" % (rule, sig, r["seed"]))
                    continue
                nondet_notes.append("violation %s/%s (seed %s) reproduces in every fresh process but the event-log hash varies: the tree reads entropy or time outside the simulator's seams" % (rule, sig, r["seed"]))
            confirmed = (r, v, pf)
            break
        if not confirmed:
            if rule in MEASURED_RULES and unconfirmed_measurements[rule]:
                noise_groups.add((rule, sig))
            continue
        r, v, pf = confirmed
        plan = json.load(open(pf))
        m = Minimiser(binary, scratch, prop, plan, rule, sig, min(min_deadline, time.time() + 45))
        small = m.run()
        small["replay"] = True
        tmp = os.path.join(scratch, "final.json")
        json.dump(small, open(tmp, "w"))
        res, tail, err = run_bin(binary, ["-sim.replay", tmp], 120, scratch)
        rr = has_violation(res, prop, rule, sig) if not err else None
        if rr is None:
            small = dict(plan, replay=True)
            rr = r
        detail = next((x["detail"] for x in rr.get("viol", []) if x["prop"] == prop and x["rule"] == rule and x.get("sig", "") == sig), v["detail"])
        small["expect"] = {"prop": prop, "rule": rule, "sig": sig, "hash": rr.get("hash"), "detail": detail}
        rdir = os.path.join(V, "replays") if a.src == "/repo" else os.path.join(tempfile.gettempdir(), "verif-seeded-replays")
        os.makedirs(rdir, exist_ok=True)
        name = "%s-%s-%s.json" % (prop, re.sub(r"[^A-Za-z0-9]+", "-", rule), r["seed"])
        path = os.path.join(rdir, name)
        annotate(small)
        json.dump(small, open(path, "w"))
        write_trace(binary, scratch, path)
        replay_files.append(path)
        out_lines.append("violation: property=%s rule=%s sig=%s seed=%s ops=%d->%d tape=%d->%d (%d runs hit it)\n  %s" % (
            prop, rule, sig, r["seed"], len(plan.get("ops") or []), len(small.get("ops") or []), len(plan.get("tape") or []), len(small.get("tape") or []), len(items), detail.replace("\n", "\n  ")[:1500]))
        out_lines.append("VIOLATION property=%s replay=%s" % (prop, path))
        exit_code = 1
    if len(reported) > 4:
        out_lines.append("(%d further violation groups not minimised: %s)" % (len(reported) - 4, [k for k, _ in reported[4:]][:10]))

    wall = time.time() - t_start
    # ---- evidence ----
    rate = evaluations / explore_s * 3600 if explore_s > 0 else 0
    cov = {
        "evaluations": evaluations,
        "distinct_nontrivial": len(distinct),
        "rule": RULES.get(prop, "one evaluation = one simulated world (seeded configuration, workload, faults and schedule); non-trivial = the property's oracle made at least one non-vacuous judgement; distinct = different (configuration class, schedule-trace hash) pair"),
        "samples": samples or [{"note": "no world made a judgement"}],
        "seeds_base": seed,
        "worlds_per_hour": int(rate),
        "simulated_time_s": round(simns / 1e9, 3),
        "kernel_steps": steps,
        "choice_points": choices,
        "context_switches": switches,
        "distinct_schedule_traces": len(hashes),
        "distinct_abstract_states": len(states),
        "oracle_judgements": judged,
        "judgements_and_probes": dict(sorted(stats.items())),
        "faults_fired": dict(sorted(fired.items())),
        "determinism_rechecks": rechecks,
        "violations_of_other_properties_seen": dict(others),
        "known_findings_seen": {k: n for k, (_, n) in known_seen.items()},
        "replay_files": replay_files,
        "rewriter": simprep_report.get("rules", {}),
        "uncontrolled_selects": simprep_report.get("unhandled") or [],
        "real_components": "every non-test file of /repo's working tree, rewritten only by rules R1-R8 (net->simnet, sync->simsync, sync/atomic->simatomic, go/chan/select/map-range/time.Sleep -> kernel traps, channel capacities through a world knob)",
        "stub_components": "package net (UDP, TCP, DNS), sync primitives (kernel objects; sync.Map, sync.Pool and atomics = the real operation behind a scheduling point, Pool/Range choices from the tape), goroutine scheduling, select choice, map iteration order, clock (testing/synctest), UUID entropy, user agents, backends, DNS server",
        "build_s": round(build_s, 1),
        "explore_s": round(explore_s, 1),
        "race_detector": race,
        "unconfirmed_measurements": dict(unconfirmed_measurements),
    }
    ev = {
        "property_id": prop, "tier": tier, "seed": seed, "level": LEVEL[prop], "coverage": cov,
        "assumptions": ["the simulator (kernel, simnet, simsync, rewriter) and the independent SIP reader are trusted",
                        "scheduling points are synchronisation, channel, timer and I/O operations; code between two of them runs atomically",
                        "a clean batch is evidence, not proof: schedules and inputs are sampled"],
        "wall_s": round(wall, 1), "violations": sum(len(i) for k, i in reported if k not in noise_groups),
    }
    if not a.no_evidence and prop not in ("SMOKE", "SIMSELF"):
        os.makedirs(os.path.join(V, "evidence"), exist_ok=True)
        json.dump(ev, open(os.path.join(V, "evidence", prop + ".json"), "w"), indent=1)

    for l in out_lines:
        print(l)
    for l in nondet_notes:
        print("note: " + l)
    print("%s %s: %d worlds, %d judgements, %d distinct non-trivial, %.0f worlds/h, %.1fs wall; violations=%d known=%d" % (
        prop, tier, evaluations, judged, len(distinct), rate, wall, sum(len(i) for k, i in reported if k not in noise_groups), sum(n for _, n in known_seen.values())))
    if noise_groups:
        print("note: %d measurement verdict(s) (%s) were not repeated by a fresh process that replayed the same execution and were discarded as measurement noise" % (sum(unconfirmed_measurements.values()), ", ".join(sorted(unconfirmed_measurements))))
    if infra:
        print("INFRASTRUCTURE: %d problem(s), first:\n%s" % (len(infra), "\n".join(infra[:3])[:4000]))
        return 2 if exit_code == 0 else exit_code
    if evaluations == 0:
        die2("no world was run")
    if judged == 0 and prop not in ("SMOKE",) and exit_code == 0:
        die2("the oracle made no judgement at all")
    return exit_code


RULES = {}

if __name__ == "__main__":
    main()
