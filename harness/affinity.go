//go:build verif

package main

import (
	"encoding/json"
	"fmt"
	"strconv"
	"strings"
	"testing"
	"time"

	"verif/sim/simnet"
	"verif/sim/sipwire"
)

// C12: responses to TCP requests return on the connection the request used.
// 2-8 client connections from the SAME simulated address to one TCP listener,
// equal or different Via sent-by, pairwise distinct branches, 1-20
// transactions each; reactive UDP backends answer with provisional and final
// responses after drawn delays, so the answers of different connections
// arrive in every order; requests are cut into segments.

func genAffinityPlan(seed uint64, tier string) *Plan {
	g := newGen(seed)
	p := &Plan{Sched: g.intn(3), PCTDepth: 1 + g.intn(3)}
	c := &p.Cfg
	c.Name = "svc.example.com"
	l := ListenCfg{Addr: "10.0.0.1", TCP: 5060}
	if g.chance(50) {
		l.UDP = 5060
	}
	l.NoReceived = g.pick("", "", "false", "true")
	if g.chance(10) {
		// a slow node: requests and answers that arrive at different instants queue up inside the proxy
		if c.Knobs == nil {
			c.Knobs = map[string]int{}
		}
		c.Knobs["recvCostUs"] = g.pick2(100, 500, 2000)
	}
	for b := 0; b < 1+g.intn(3); b++ {
		l.Backends = append(l.Backends, fmt.Sprintf("udp://10.2.0.%d:5070", b+1))
	}
	c.Listens = []ListenCfg{l}
	c.Faults.MinLat = 50 * time.Microsecond
	c.Faults.MaxLat = 3 * time.Millisecond
	c.Faults.SegPct = g.pick2(0, 30, 80)
	c.Faults.ShortReadPct = g.pick2(0, 30)
	c.Faults.MaxSegs = 5
	c.Faults.LatGrid = g.pick2(0, 4, 8)
	nconn := g.rng(2, 8)
	clientIP := "10.1.0.1"
	sameSentBy := g.chance(50)
	prevBranch, prevConn, prevMethod := "", "", ""
	namedClient := map[int]bool{}
	for ci := 0; ci < nconn; ci++ {
		ntx := g.rng(1, 4)
		if g.chance(15) {
			ntx = g.rng(4, 20)
		}
		for t := 0; t < ntx; t++ {
			id := g.nextID()
			op := Op{Kind: "tx", ID: id, Conn: fmt.Sprintf("k%d", ci), SrcIP: clientIP, DelayUs: int64(g.intn(12)) * 2500,
				S: map[string]string{"method": g.pick("INVITE", "OPTIONS", "MESSAGE", "REGISTER", "INFO"), "prov": g.pick("", "100", "180", "100,180", "183")},
				I: map[string]int{"final": g.pick2(200, 200, 404, 486, 302, 603), "d1": 200 + g.intn(8000), "d2": 300 + g.intn(8000), "rport": g.intn(3)}}
			if g.chance(12) {
				// a slow final answer: it crosses the transport table's once-a-minute clean-up
				op.I["d2"] = 61000000 + g.intn(140000000)
			} else if op.S["prov"] != "" && g.chance(35) {
				// the backend writes its provisional and final answers without a pause: the proxy finds them back to
				// back in its socket queue, in that order
				op.I["b2b"] = 1
			}
			if sameSentBy {
				op.S["sentby"] = "10.1.0.1:5060"
			} else if g.chance(30) {
				op.S["sentby"] = fmt.Sprintf("client%d.hosts.test:5060", ci)
				if !namedClient[ci] && g.chance(50) {
					// the name is in the service's host table
					namedClient[ci] = true
					c.Hosts = append(c.Hosts, HostCfg{Name: fmt.Sprintf("client%d.hosts.test", ci), IP: clientIP})
				}
			}
			// sequence numbers up to 2^31-1; now and then the client is itself a relay (its request carries the Via of
			// the party behind it, on a line of its own or on the same line)
			op.I["cseq"] = g.pick2(1, 1, 1, 7, 65535, 65536, 81234, 2147483647)
			if !sameSentBy && op.S["sentby"] == "" && g.chance(12) {
				op.S["sentby"] = clientIP // no port in the sent-by: the default applies wherever a port is needed
				op.I["rport"] = 0
			}
			if op.S["branch"] == "" && g.chance(8) {
				op.S["branch"] = "z9hG4bK%41x7~" + g.alnumL(4, 8) // '%' and '~' are token characters
			}
			if g.chance(5) {
				op.I["bigAnswer"] = 41000 + g.intn(20000) // the final answer carries a body of 40-60 KiB (one datagram)
			}
			if g.chance(25) {
				op.I["lowerVia"] = 1 + g.intn(2)
			}
			if prevBranch != "" && prevConn != op.Conn && g.chance(25) {
				// two open transactions whose branches differ in letter case only (tokens are compared as written)
				op.S["branch"] = "z9hG4bK" + strings.ToUpper(prevBranch[7:])
				op.S["method"] = prevMethod
				prevBranch = ""
			} else if g.chance(20) {
				op.S["branch"] = "z9hG4bK" + strings.ToLower(g.alnumL(6, 10))
				prevBranch, prevConn, prevMethod = op.S["branch"], op.Conn, op.S["method"]
			}
			p.Ops = append(p.Ops, op)
		}
	}
	if g.chance(20) {
		// INVITE and, while it rings, a CANCEL with the same branch on the same connection (as RFC 3261 requires); the
		// CANCEL is answered first, the INVITE's 487 later: both answers belong on that connection
		id := g.nextID()
		br := "z9hG4bK" + g.alnumL(8, 12)
		conn := fmt.Sprintf("kc%d", g.intn(2))
		rp := g.intn(3)
		inv := Op{Kind: "tx", ID: id, Conn: conn, SrcIP: clientIP, DelayUs: int64(g.intn(4)) * 2500,
			S: map[string]string{"method": "INVITE", "prov": "180", "branch": br},
			I: map[string]int{"final": 487, "d1": 800, "d2": 40000 + g.intn(20000), "rport": rp}}
		can := Op{Kind: "tx", ID: g.nextID(), Conn: conn, SrcIP: clientIP, DelayUs: inv.DelayUs + 5000,
			S: map[string]string{"method": "CANCEL", "prov": "", "branch": br},
			I: map[string]int{"final": 200, "d1": 500, "d2": 500, "rport": rp}}
		if sameSentBy {
			inv.S["sentby"], can.S["sentby"] = "10.1.0.1:5060", "10.1.0.1:5060"
		}
		p.Ops = append(p.Ops, inv, can)
	}
	if g.chance(20) {
		// the client's connection breaks while its request is pending; it connects again and sends the same request
		// (same branch) over the new connection: that is where the answers belong now
		id := g.nextID()
		op := Op{Kind: "tx", ID: id, Conn: "kr-" + id, SrcIP: clientIP, DelayUs: int64(g.intn(4)) * 2500,
			S: map[string]string{"method": g.pick("INVITE", "OPTIONS", "REGISTER"), "prov": g.pick("", "180")},
			I: map[string]int{"final": 200, "d1": 30000 + g.intn(5000), "d2": 2000 + g.intn(20000), "rport": 0, "retxAtUs": 8000 + g.intn(8000)}}
		// the client names its listening port and asks for no rport: both copies are one transaction towards one
		// response address, whichever connection carries them
		op.S["sentby"] = "10.1.0.1:5060"
		p.Ops = append(p.Ops, op)
	}
	if g.chance(12) {
		// two clients whose source ports are P and 10*P+d (one address is a prefix of the other, as text); the first
		// hangs up while the second has a transaction open
		P := 3000 + g.intn(3000)
		q := Op{Kind: "tx", ID: g.nextID(), Conn: "kp1", SrcIP: clientIP, DelayUs: 2500, S: map[string]string{"method": "OPTIONS", "prov": ""},
			I: map[string]int{"final": 200, "d1": 300, "d2": 300, "rport": 1, "srcPort": P}}
		r := Op{Kind: "tx", ID: g.nextID(), Conn: "kp2", SrcIP: clientIP, DelayUs: 5000, S: map[string]string{"method": "INVITE", "prov": "180"},
			I: map[string]int{"final": 200, "d1": 30000, "d2": 20000, "rport": 1, "srcPort": P*10 + g.intn(10)}}
		p.Ops = append(p.Ops, q, r, Op{Kind: "hangup", ID: g.nextID(), Conn: "kp1", DelayUs: 15000})
	}
	if g.chance(12) {
		// a transaction that is ringing while its connection turns an hour old
		id := g.nextID()
		op := Op{Kind: "tx", ID: id, Conn: "k0", SrcIP: clientIP, DelayUs: int64(g.rng(3530, 3598)) * 1000000,
			S: map[string]string{"method": "INVITE", "prov": "180"},
			I: map[string]int{"final": 200, "d1": 500, "d2": 61000000 + g.intn(120000000), "rport": g.intn(3)}}
		if sameSentBy {
			op.S["sentby"] = "10.1.0.1:5060"
		}
		p.Ops = append(p.Ops, op)
		p.Variant = "hour-old-connection"
	}
	if sameSentBy && g.chance(30) {
		// one client connects FROM the port that the others announce in their Via (10.1.0.1:5060) and asks for rport:
		// its response address (received:rport) is, as text, the others' (sent-by); its transaction stays open while
		// the others' come and go
		id := g.nextID()
		op := Op{Kind: "tx", ID: id, Conn: "ksrc", SrcIP: clientIP, DelayUs: 0,
			S: map[string]string{"method": "INVITE", "prov": "180", "sentby": "10.1.0.1:5070"},
			I: map[string]int{"final": 200, "d1": 500, "d2": 60000 + g.intn(40000), "rport": 1, "srcPort": 5060}}
		p.Ops = append(p.Ops, op)
	}
	if nconn > 2 && g.chance(15) {
		// one client hangs up while its transactions are open, and nobody listens where its Via points: its answers
		// cannot be delivered - everybody else's must not notice
		p.Ops = append(p.Ops, Op{Kind: "hangup", ID: g.nextID(), Conn: fmt.Sprintf("k%d", g.intn(nconn)), DelayUs: int64(30000 + g.intn(4000))})
	}
	return p
}

func execAffinity(t *testing.T, p *Plan) *Result {
	r := &Result{}
	connOfReq := map[string]int{}
	w := runWorld(t, p, func(w *World) {
		d := newDlgWorld(w, p)
		d.exact = true
		byID := map[string]*Op{}
		for i := range p.Ops {
			byID[p.Ops[i].ID] = &p.Ops[i]
		}
		d.respScript = func(party string, m *sipwire.Msg, id string) []respPlan {
			op := byID[id]
			if op == nil {
				return nil
			}
			var out []respPlan
			t := time.Duration(op.I["d1"]) * time.Microsecond
			if op.S["prov"] != "" {
				for _, s := range strings.Split(op.S["prov"], ",") {
					code, _ := strconv.Atoi(s)
					rp := respPlan{delay: t, status: code, expires: -1}
					if code > 100 {
						rp.toTag = "t" + strings.ReplaceAll(id, "-", "")
					}
					rp.b2b = op.I["b2b"] == 1
					out = append(out, rp)
					t += 100 * time.Microsecond
				}
			}
			out = append(out, respPlan{delay: t + time.Duration(op.I["d2"])*time.Microsecond, status: op.I["final"], toTag: "t" + strings.ReplaceAll(id, "-", ""), expires: -1, b2b: op.I["b2b"] == 1, bodyLen: op.I["bigAnswer"]})
			return out
		}
		l := p.Cfg.Listens[0]
		hungUp := map[string]bool{}
		retransmits := false
		for i := range p.Ops {
			retransmits = retransmits || p.Ops[i].I["retxAtUs"] > 0
			op := &p.Ops[i]
			if op.Kind == "hangup" {
				hungUp[op.Conn] = true
				w.K.After(time.Duration(op.DelayUs)*time.Microsecond, "hangup", func() {
					if c := w.conns[op.Conn]; c != nil && !c.Closed() {
						c.Close()
						w.stat("probe:client-hung-up-with-open-transactions")
					}
				})
				continue
			}
			if op.Kind != "tx" {
				continue
			}
			w.K.After(time.Duration(op.DelayUs)*time.Microsecond, "tx", func() {
				c, err := w.TCPConnTo(op.Conn, op.SrcIP, op.I["srcPort"], hostPort(l.Addr, l.TCP))
				if err != nil {
					w.K.Failures = append(w.K.Failures, "harness: connect: "+err.Error())
					return
				}
				connOfReq[op.ID] = c.ID
				sentby := op.S["sentby"]
				if sentby == "" {
					sentby = c.Local.String()
				}
				params := ";branch=z9hG4bK" + strings.ReplaceAll(op.ID, "-", "")
				if b := op.S["branch"]; b != "" {
					params = ";branch=" + b
				}
				switch op.I["rport"] {
				case 1:
					params += ";rport"
				case 2:
					params = ";rport" + params
				}
				b := &sipwire.Builder{Start: op.S["method"] + " sip:u@svc.example.com SIP/2.0"}
				lower := "SIP/2.0/UDP 10.77.0.9:5062;branch=z9hG4bKlow" + strings.ReplaceAll(op.ID, "-", "")
				switch op.I["lowerVia"] {
				case 1:
					b.Add("Via", "SIP/2.0/TCP "+sentby+params)
					b.Add("Via", lower)
				case 2:
					b.Add("Via", "SIP/2.0/TCP "+sentby+params+", "+lower)
				default:
					b.Add("Via", "SIP/2.0/TCP "+sentby+params)
				}
				cseq := op.I["cseq"]
				if cseq == 0 {
					cseq = 1
				}
				b.Add("From", "<sip:c@caller.test>;tag=f"+strings.ReplaceAll(op.ID, "-", ""))
				b.Add("To", "<sip:u@svc.example.com>")
				b.Add("Call-ID", "cid-"+op.ID)
				b.Add("CSeq", strconv.Itoa(cseq)+" "+op.S["method"])
				b.Add("X-Sim-Id", op.ID)
				data := b.Bytes()
				c.Write(data)
				if us := op.I["retxAtUs"]; us > 0 {
					w.K.After(time.Duration(us)*time.Microsecond, "retransmit-on-new-connection", func() {
						c.Close()
						w.K.After(300*time.Microsecond, "reconnect", func() {
							c2, err := w.TCPConnTo(op.Conn+"-again", op.SrcIP, 0, hostPort(l.Addr, l.TCP))
							if err != nil {
								return
							}
							connOfReq[op.ID] = c2.ID
							// the Via sent-by of a client that lets the proxy see its address is that of the connection
							c2.Write(data)
							w.stat("probe:request-sent-again-over-a-new-connection")
						})
					})
				}
			})
		}
		if p.Variant == "hour-old-connection" {
			w.K.Settle(2 * time.Hour)
		} else {
			w.K.Settle(10 * time.Minute)
		}
		if w.dead() {
			return
		}
		// judge: every relayed response of a transaction is a write on the
		// request's connection; nothing is dialled towards the client
		finalSeen := map[string]bool{}
		for _, e := range w.decodeEmissions(0) {
			if e.M == nil || e.M.IsRequest {
				continue
			}
			i := strings.LastIndex(e.ID, ".r")
			if i < 0 {
				continue
			}
			reqID := e.ID[:i]
			op := byID[reqID]
			if op == nil {
				continue
			}
			if hungUp[op.Conn] {
				w.stat("dontcare:answer-for-a-client-that-hung-up")
				if e.M.Status >= 200 {
					finalSeen[reqID] = true
				}
				continue
			}
			final := e.M.Status >= 200
			if final && finalSeen[reqID] {
				continue // retransmitted finals are not judged
			}
			if final {
				finalSeen[reqID] = true
			}
			w.Stats["judged:C12"]++
			want := connOfReq[reqID]
			if e.E.Proto != "tcp" || e.E.ConnID != want {
				w.Viol = append(w.Viol, Violation{Prop: "C12", Rule: "answer-not-on-request-connection", Msg: e.ID,
					Sig: fmt.Sprintf("crossListener=false;sameSentBy=%v", op.S["sentby"] == "10.1.0.1:5060"),
					Detail: fmt.Sprintf("%d answer to %s (request arrived on connection %d from %s, Via sent-by %q) was written to %s/%s connection %d", e.M.Status, reqID, want, op.SrcIP, op.S["sentby"], e.E.Proto, e.E.Dst, e.E.ConnID)})
			}
		}
		// every transaction got its final answer (no loss faults in this world)
		for id, op := range byID {
			if len(d.reached[id]) == 0 {
				continue
			}
			if hungUp[op.Conn] {
				continue
			}
			w.Stats["judged:C12"]++
			if !finalSeen[id] {
				w.Viol = append(w.Viol, Violation{Prop: "C12", Rule: "final-answer-not-relayed", Msg: id, Sig: "",
					Detail: fmt.Sprintf("request %s reached backend %v and was answered %d, but no final answer was written to the client (connection %d)", id, d.reached[id], op.I["final"], connOfReq[id])})
			}
		}
		for _, ev := range w.N.Events {
			if len(hungUp) > 0 || retransmits {
				// answers for the client that hung up are dialled towards its Via address, rightly; so is the second
				// backend's final answer to a request that was sent twice (the first final answer ended the transaction)
				break
			}
			if ev.Kind == "tcp-connect" && strings.HasPrefix(ev.B, "10.1.0.1:") || ev.Kind == "tcp-refused" && strings.HasPrefix(ev.B, "10.1.0.1:") {
				w.Viol = append(w.Viol, Violation{Prop: "C12", Rule: "dial-towards-client", Msg: "", Sig: "",
					Detail: fmt.Sprintf("the proxy dialled %s (%s) although every client connection is open", ev.B, ev.Kind)})
				break
			}
		}
	})
	if p.Prop == "C07" {
		// borrowed by C07 (a sixteenth of its worlds): with received-support on, "the response travels back to the packet's
		// true source" - a final answer that is relayed to nobody, or carried to a connection dialled towards the address
		// the client WROTE while the connection it really came from is open, has not travelled back to it
		w.Stats["judged:C07"] += w.Stats["judged:C12"]
		if p.Cfg.Listens[0].receivedSupport() {
			for _, v := range append([]Violation(nil), w.Viol...) {
				if v.Prop == "C12" && (v.Rule == "final-answer-not-relayed" || v.Rule == "dial-towards-client") {
					w.Viol = append(w.Viol, Violation{Prop: "C07", Rule: "answer-never-reached-true-source", Msg: v.Msg, Sig: "ingress=tcp;via=" + v.Rule, Detail: v.Detail})
				}
			}
		}
	}
	if p.Prop == "C02" {
		// borrowed by C02: "the response to a request the proxy relayed returns to the hop the request came from"
		w.Stats["judged:C02"] += w.Stats["judged:C12"]
		for _, v := range append([]Violation(nil), w.Viol...) {
			if v.Prop == "C12" && v.Rule == "final-answer-not-relayed" {
				w.Viol = append(w.Viol, Violation{Prop: "C02", Rule: "answer-not-relayed-exactly-once", Msg: v.Msg, Sig: "affinityWorld=true;ingress=tcp;crossListener=false;n=0", Detail: v.Detail})
			}
		}
	}
	finish(w, p, r)
	r.Judged = w.Stats["judged:C12"]
	if p.Prop == "C07" || p.Prop == "C02" {
		r.Judged = w.Stats["judged:"+p.Prop]
	}
	conns := map[string]int{}
	for _, op := range p.Ops {
		conns[op.Conn]++
	}
	r.Class = fmt.Sprintf("conns=%d/tx=%d/seg=%d/nr=%s", len(conns), len(p.Ops), p.Cfg.Faults.SegPct, p.Cfg.Listens[0].NoReceived)
	s, _ := json.Marshal(map[string]interface{}{"connections_from_one_address": len(conns), "transactions": len(p.Ops), "listener": p.Cfg.Listens[0],
		"first_transaction": p.Ops[0], "segmentation_pct": p.Cfg.Faults.SegPct})
	r.Sample = s
	return r
}

var _ = simnet.New

func init() {
	register("C12", genAffinityPlan, execAffinity)
}
