//go:build verif

package main

import (
	"encoding/json"
	"fmt"
	"os"
	"path/filepath"
	"sort"
	"strings"
	"testing"
	"time"

	"verif/sim/simnet"
	"verif/sim/simrt"
	"verif/sim/sipwire"
)

// C09: concurrent listeners and backend changes never corrupt or kill the
// proxy. One service with 2-4 listen entries (one shared learned-route table,
// host resolver, static-route table and dynamic resolver), UDP and TCP
// clients, UDP and TCP backends, some backends given by a name that two
// listen entries share and that the DNS script changes while traffic flows.
// Requests arrive in simultaneous bursts, timed to coincide with the
// resolver's poll instants, so that the message loops, receive/parse
// goroutines and the resolver's notifier goroutines really interleave under
// the seeded scheduler. Built with -race: the Go race detector works inside
// the serialised simulation (DESIGN.md 2.6) and reports unsynchronised
// sharing from the happens-before relation.

// other worlds re-run under the race detector: the buffer pool under bursts
// (C10), the transport table with many TCP connections (C12), dialogs on two
// listen entries (C04), the rotation racing with membership changes (C05)
// and the resolver under DNS churn (C19)
var borrowedWorlds = []string{"C10", "C12", "C04", "C05", "C19"}

func genConcurrencyPlan(seed uint64, tier string) *Plan {
	g := newGen(seed)
	if g.chance(45) {
		id := borrowedWorlds[g.intn(len(borrowedWorlds))]
		p := props[id].gen(seed, tier)
		if p.Variant != "" {
			p.Variant = "as:" + id + ":" + p.Variant
		} else {
			p.Variant = "as:" + id + ":"
		}
		return p
	}
	p := &Plan{MapPerm: g.chance(50)}
	switch g.intn(5) {
	case 0, 1:
		p.Sched = simrt.SchedPCT
		p.PCTDepth = 1 + g.intn(3)
	case 2:
		p.Sched = simrt.SchedStarve
		p.StarveName = g.pick("startParseMessage", "receiveAndProcessMessage", "notifyAddressChanged", "receiveMessage")
		p.StarveSteps = uint64(100 + g.intn(600))
	case 3:
		p.Sched = simrt.SchedRunBlock
	default:
		p.Sched = simrt.SchedRandom
	}
	c := &p.Cfg
	c.Name = "svc.example.com"
	nl := g.rng(2, 4)
	shared := "pool-a.backends.test"
	anyNamedOnly := false
	for i := 0; i < nl; i++ {
		l := ListenCfg{Addr: fmt.Sprintf("10.0.0.%d", i+1), UDP: 5060}
		if g.chance(60) {
			l.TCP = 5060
		}
		// a literal UDP backend of its own keeps the rotation non-empty; some entries rely on the
		// name alone (its answers are never empty then, so the rotation must not be empty at any instant)
		namedOnly := i < 2 && g.chance(35)
		if !namedOnly {
			l.Backends = append(l.Backends, fmt.Sprintf("udp://10.2.%d.1:5070", i))
		} else {
			anyNamedOnly = true
		}
		if i < 2 || g.chance(40) {
			l.Backends = append(l.Backends, "udp://"+shared+":5070") // two listen entries share the name
		}
		if g.chance(30) {
			addr := fmt.Sprintf("10.2.%d.9:5070", i)
			l.Backends = append(l.Backends, "tcp://"+addr)
			c.TCPSinks = append(c.TCPSinks, addr)
		}
		c.Listens = append(c.Listens, l)
	}
	c.Faults = simnet.Faults{MinLat: 100 * time.Microsecond, MaxLat: 300 * time.Microsecond, LatGrid: 2}
	polls := g.rng(2, 4)
	pool := dnsPool[shared]
	var sc []simnet.Answer
	for i := 0; i <= polls; i++ {
		var ips []string
		for _, ip := range pool[:4] {
			if g.chance(50) {
				ips = append(ips, ip)
			}
		}
		if anyNamedOnly && len(ips) == 0 {
			ips = []string{pool[g.intn(4)]}
		}
		if anyNamedOnly && g.chance(40) && i > 0 {
			// the name moves: every address is replaced at once
			prev := sc[len(sc)-1].IPs
			ips = nil
			for _, ip := range pool[:4] {
				in := false
				for _, q := range prev {
					if q == ip {
						in = true
					}
				}
				if !in {
					ips = append(ips, ip)
				}
			}
			if len(ips) == 0 {
				ips = []string{pool[4]}
			}
		}
		if !anyNamedOnly && (len(ips) == 0 || g.chance(10)) {
			sc = append(sc, simnet.Answer{Fail: true})
		} else {
			sc = append(sc, simnet.Answer{IPs: ips})
		}
	}
	c.DNSScript = map[string][]simnet.Answer{shared: sc}
	c.DNS = map[string][]string{"peer-a.dns.test": {"10.1.0.1"}, "peer-b.dns.test": {"10.1.0.2"}}
	c.Knobs = map[string]int{"dnsPeriodMs": 2000, "polls": polls}
	for _, ip := range topo.uas {
		c.TCPSinks = append(c.TCPSinks, hostPort(ip, 5060))
	}
	// bursts: at start-up quiescence, and exactly at the poll instants
	n := 0
	for b := 0; b <= polls; b++ {
		k := g.rng(2, 10)
		at := int64(b) * 2000000 // microseconds: the poll instants
		if b == 0 {
			at = 500
		}
		for i := 0; i < k; i++ {
			n++
			li := g.intn(nl)
			proto := "udp"
			if c.Listens[li].TCP != 0 && g.chance(35) {
				proto = "tcp"
			}
			op := Op{Kind: "req", ID: fmt.Sprintf("r%s-%d", g.tag, n), Listen: li, Proto: proto, SrcIP: topo.uas[g.intn(len(topo.uas))], SrcPort: 5060,
				DelayUs: at + int64(g.intn(2))*100, S: map[string]string{"method": g.pick("OPTIONS", "MESSAGE", "INVITE", "REGISTER")}, I: map[string]int{"d": 100 + 100*g.intn(3)}}
			if g.chance(25) && b > 0 {
				// routed to a host learned through (possibly) another listen entry
				op.S["routeTo"] = topo.uas[g.intn(len(topo.uas))]
			} else if g.chance(20) {
				// routed to a host that only the name server knows: every listen entry that meets the name asks for it
				op.S["routeTo"] = g.pick("peer-a.dns.test", "peer-a.dns.test", "peer-b.dns.test")
			}
			if proto == "tcp" {
				op.Conn = fmt.Sprintf("c%d-%s", li, op.SrcIP)
			}
			p.Ops = append(p.Ops, op)
		}
	}
	return p
}

func execConcurrency(t *testing.T, p *Plan) *Result {
	if strings.HasPrefix(p.Variant, "as:") {
		return execBorrowed(t, p)
	}
	r := &Result{}
	race0 := simrt.RaceErrors()
	w := runWorld(t, p, func(w *World) {
		c := &p.Cfg
		v := func(rule, id, sig, format string, a ...interface{}) {
			w.Viol = append(w.Viol, Violation{Prop: "C09", Rule: rule, Msg: id, Sig: sig, Detail: fmt.Sprintf(format, a...)})
		}
		d := newDlgWorld(w, p)
		d.exact = true
		for _, ip := range dnsPool["pool-a.backends.test"] {
			d.bindBackend(ip + ":5070")
		}
		byID := map[string]*Op{}
		for i := range p.Ops {
			byID[p.Ops[i].ID] = &p.Ops[i]
		}
		d.respScript = func(party string, m *sipwire.Msg, id string) []respPlan {
			op := byID[id]
			if op == nil {
				return nil
			}
			return []respPlan{{delay: time.Duration(op.I["d"]) * time.Microsecond, status: 200, toTag: "t" + strings.ReplaceAll(id, "-", ""), expires: -1}}
		}
		connOf := map[string]int{}
		base := takeCensus(w)
		for i := range p.Ops {
			op := &p.Ops[i]
			l := c.Listens[op.Listen]
			ids := dlgIDs{callID: "cid-" + op.ID, fromURI: "sip:u@caller.test", toURI: "sip:svc@svc.example.com", fromTag: "f" + strings.ReplaceAll(op.ID, "-", ""), ruri: "sip:svc.example.com"}
			o := reqOpts{method: op.S["method"], cseq: 1, style: i, noToTag: true, srcAddr: hostPort(op.SrcIP, op.SrcPort), id: op.ID}
			if rt := op.S["routeTo"]; rt != "" {
				ids.ruri = "sip:peer@" + rt
				o.extra = append(o.extra, sipwire.Header{Name: "Route", Value: "<sip:" + rt + ":5070;lr>"})
			}
			data := ids.request(o)
			if op.Proto == "tcp" {
				data = []byte(strings.Replace(string(data), "SIP/2.0/UDP", "SIP/2.0/TCP", 1))
			}
			delay := time.Duration(op.DelayUs) * time.Microsecond
			if op.Proto == "udp" {
				w.N.InjectUDP(udpAddr(hostPort(op.SrcIP, op.SrcPort)), udpAddr(hostPort(l.Addr, l.UDP)), data, delay)
				continue
			}
			w.K.After(delay-100*time.Microsecond, "tcp-req", func() {
				cn, err := w.TCPConnTo(op.Conn, op.SrcIP, 0, hostPort(l.Addr, l.TCP))
				if err != nil {
					return
				}
				connOf[op.ID] = cn.ID
				cn.WriteExact(data, 100*time.Microsecond)
			})
		}
		// between the bursts the TCP backends drop their connections: the proxy's
		// per-connection goroutine ends, the next dispatch re-dials
		for b := 1; b <= c.Knobs["polls"]; b++ {
			w.K.After(time.Duration(b)*2*time.Second-time.Second, "tcp-backends-drop-connections", func() {
				for _, e := range w.N.Conns {
					if !e.Proxy && strings.HasSuffix(e.Local.String(), ".9:5070") && !e.Closed() {
						e.Close()
						w.stat("probe:tcp-backend-dropped-connection")
					}
				}
			})
		}
		w.K.Settle(time.Duration(c.Knobs["polls"]+2) * 2 * time.Second)
		if w.dead() {
			return
		}
		// (2) nobody is stuck
		cs := takeCensus(w)
		w.Stats["judged:C09"]++
		for _, b := range cs.bad {
			v("goroutine-wedged", "", "", "%s at quiescence", b)
		}
		for name, n := range base.alive {
			if strings.HasPrefix(name, "t.receiveMessage") || strings.HasPrefix(name, "r.notify") {
				continue
			}
			if cs.alive[name] < n {
				v("goroutine-died", "", "goroutine="+name, "%d goroutine(s) %s were alive after start-up, %d at the end", n, name, cs.alive[name])
			}
		}
		// (3) conservation
		emsBy := map[string][]*Emitted{}
		for _, e := range w.decodeEmissions(0) {
			emsBy[e.ID] = append(emsBy[e.ID], e)
		}
		for i := range p.Ops {
			op := &p.Ops[i]
			w.Stats["judged:C09"]++
			ems := emsBy[op.ID]
			sig := fmt.Sprintf("proto=%s;routed=%v", op.Proto, op.S["routeTo"] != "")
			if len(ems) != 1 {
				var dsts []string
				for _, e := range ems {
					dsts = append(dsts, e.E.Dst)
				}
				v("request-not-relayed-exactly-once", op.ID, sig, "request %s (listen entry %d, %s) was emitted %d time(s): %v", op.ID, op.Listen, op.Proto, len(ems), dsts)
				continue
			}
			if op.S["routeTo"] != "" {
				continue
			}
			// a backend of its own listen entry
			dst := ems[0].E.Dst
			ok := false
			for _, b := range c.Listens[op.Listen].Backends {
				hp := b[6:]
				if hp == dst || strings.HasPrefix(hp, "pool-a") && strings.HasPrefix(dst, "10.2.10.") {
					ok = true
				}
			}
			if !ok {
				v("request-at-foreign-backend", op.ID, sig, "request %s arrived on listen entry %d and was sent to %s, which is not one of its backends %v", op.ID, op.Listen, dst, c.Listens[op.Listen].Backends)
			}
			if strings.HasSuffix(dst, ".9:5070") {
				continue // TCP backends only record
			}
			resp := emsBy[op.ID+".r200"]
			if len(resp) != 1 {
				v("answer-not-returned-exactly-once", op.ID, sig, "the answer to %s (sent by backend %s) was relayed %d time(s)", op.ID, dst, len(resp))
				continue
			}
			e := resp[0].E
			if op.Proto == "tcp" {
				if e.Proto != "tcp" || e.ConnID != connOf[op.ID] {
					v("answer-to-wrong-place", op.ID, sig, "the answer to %s must return on connection %d, went to %s/%s connection %d", op.ID, connOf[op.ID], e.Proto, e.Dst, e.ConnID)
				}
			} else if e.Dst != hostPort(op.SrcIP, op.SrcPort) {
				v("answer-to-wrong-place", op.ID, sig, "the answer to %s must return to %s:%d, went to %s", op.ID, op.SrcIP, op.SrcPort, e.Dst)
			}
		}
	})
	// (1) the race detector
	if d := simrt.RaceErrors() - race0; d > 0 {
		text := readRaceLog()
		r.RaceLog = clip(text, 6000)
		if stackInRepo(text) {
			w.Viol = append(w.Viol, Violation{Prop: "C09", Rule: "data-race", Sig: raceSig(text),
				Detail: fmt.Sprintf("the race detector reported %d unsynchronised access pair(s) in this world; first report:\n%s", d, clip(text, 3500))})
		} else {
			w.K.Failures = append(w.K.Failures, "race report without a frame of the program under test:\n"+clip(text, 3000))
		}
	}
	if simrt.RaceEnabled {
		w.Stats["race-detector-worlds"]++
	}
	for i := range w.Viol {
		if w.Viol[i].Rule == "panic" {
			w.Viol[i].Prop = "C09"
			w.Viol[i].Sig = panicSig(w.Viol[i].Detail)
		}
	}
	finish(w, p, r)
	r.Judged = w.Stats["judged:C09"]
	var shapes []string
	for _, l := range p.Cfg.Listens {
		shapes = append(shapes, fmt.Sprintf("%d/%d/%d", l.UDP, l.TCP, len(l.Backends)))
	}
	r.Class = fmt.Sprintf("L%s/sched%d%s/ops%d", strings.Join(shapes, ","), p.Sched, p.StarveName, len(p.Ops))
	s, _ := json.Marshal(map[string]interface{}{"listen_entries": p.Cfg.Listens, "dns_script": p.Cfg.DNSScript, "requests": len(p.Ops), "scheduling": map[string]interface{}{"strategy": p.Sched, "pct_depth": p.PCTDepth, "starve": p.StarveName}, "race_detector": simrt.RaceEnabled})
	r.Sample = s
	return r
}

// conservationRules: rules of the borrowed worlds that state C09's "no message is lost, doubled or misdelivered".
var conservationRules = map[string]bool{
	"C12:final-answer-not-relayed": true, "C12:answer-not-on-request-connection": true,
	"C10:intact-datagram-not-relayed-once": true,
	"C05:history-not-linearizable": true,
	"C19:dispatch-count": true,
	"C04:in-dialog-request-sent-to-several-backends": true,
}

// execBorrowed runs another property's world under the race detector and
// keeps only what C09 is about: race reports, panics, wedged goroutines.
func execBorrowed(t *testing.T, p *Plan) *Result {
	parts := strings.SplitN(p.Variant, ":", 3)
	id := parts[1]
	q := *p
	q.Variant = parts[2]
	q.Prop = id
	race0 := simrt.RaceErrors()
	r := props[id].exec(t, &q)
	if !p.Replay {
		p.Tape = q.Tape
	}
	var keep []Violation
	for _, v := range r.Viol {
		if v.Rule == "panic" || v.Rule == "goroutine-wedged" || v.Rule == "operation-did-not-return" || v.Rule == "send-did-not-return" {
			v.Prop = "C09"
			if v.Rule == "panic" {
				v.Sig = panicSig(v.Detail)
			}
			keep = append(keep, v)
		} else if v.Prop == id && conservationRules[id+":"+v.Rule] && !strings.Contains(v.Sig, "crossListener=true") && (v.Rule != "history-not-linearizable" || strings.Contains(v.Sig, "dispatch-went-nowhere")) {
			// "nor loses messages: every request still reaches exactly one backend of its listener and every
			// response returns to its sender" - what the borrowed world's own oracle says about exactly that
			v.Sig = id + ":" + v.Rule + ";" + v.Sig
			v.Prop, v.Rule = "C09", "conservation"
			keep = append(keep, v)
		}
	}
	r.Viol = keep
	if d := simrt.RaceErrors() - race0; d > 0 {
		text := readRaceLog()
		r.RaceLog = clip(text, 6000)
		if stackInRepo(text) {
			r.Viol = append(r.Viol, Violation{Prop: "C09", Rule: "data-race", Sig: raceSig(text),
				Detail: fmt.Sprintf("the race detector reported %d unsynchronised access pair(s) in this world (the %s world run under -race); first report:\n%s", d, id, clip(text, 3500))})
		} else {
			r.Infra = append(r.Infra, "race report without a frame of the program under test:\n"+clip(text, 3000))
		}
	}
	if r.Stats == nil {
		r.Stats = map[string]int{}
	}
	if simrt.RaceEnabled {
		r.Stats["race-detector-worlds"]++
	}
	r.Stats["borrowed-world:"+id]++
	r.Stats["judged:C09"]++
	r.Judged = 1
	r.Class = "as:" + id + "/" + r.Class
	return r
}

// readRaceLog returns the text of the race reports written so far (GORACE log_path=<prefix>).
func readRaceLog() string {
	prefix := ""
	for _, f := range strings.Fields(os.Getenv("GORACE")) {
		if strings.HasPrefix(f, "log_path=") {
			prefix = f[len("log_path="):]
		}
	}
	if prefix == "" {
		return "(race report on stderr: GORACE log_path not set)"
	}
	files, _ := filepath.Glob(fmt.Sprintf("%s.%d", prefix, os.Getpid()))
	var sb strings.Builder
	for _, f := range files {
		b, err := os.ReadFile(f)
		if err == nil {
			sb.Write(b)
		}
	}
	return sb.String()
}

// raceSig: the two innermost frames of the program under test, sorted.
func raceSig(text string) string {
	var tops []string
	blocks := strings.Split(text, "\n\n")
	for _, b := range blocks {
		if !(strings.Contains(b, " by goroutine") || strings.Contains(b, "by main goroutine")) {
			continue
		}
		lines := strings.Split(b, "\n")
		for i := 1; i+1 < len(lines); i++ {
			f := strings.TrimSpace(lines[i+1])
			j := strings.Index(f, ".go:")
			if j < 0 || !strings.HasPrefix(f, "/") {
				continue
			}
			path := f[:j+3]
			slash := strings.LastIndexByte(path, '/')
			if strings.HasSuffix(path[:slash], "/src") && !strings.HasPrefix(path[slash+1:], "zz_") {
				fn := strings.TrimSpace(lines[i])
				fn = strings.TrimSuffix(fn, "()")
				fn = strings.TrimPrefix(fn, "github.com/ochinchina/sipproxy.")
				tops = append(tops, fn)
				break
			}
		}
		if len(tops) == 2 {
			break
		}
	}
	sort.Strings(tops)
	return strings.Join(tops, "|")
}

func init() {
	register("C09", genConcurrencyPlan, execConcurrency)
}
