//go:build verif

package main

import (
	"bytes"
	"encoding/json"
	"fmt"
	"net"
	"sort"
	"strconv"
	"strings"
	"testing"
	"time"

	"verif/sim/simnet"
	"verif/sim/sipwire"
)

// The dialog world: user agents and backends are reactive simulated parties.
// Backends answer what they receive from their configured address; user
// agents continue a dialog when they observe the answer. Used by C04
// (stickiness), C15 (pin lifetime under the simulated clock), C05/C19
// (rotation and membership) and C09 (concurrency).

type dlgModel struct {
	id          string
	typ         string // invite | subscribe
	listen      int
	pinned      string // backend address the model considers pinned ("" = none)
	pinnedAt    time.Duration
	lifetime    time.Duration
	terminated  bool
	dontcare    bool // termination by "terminated;reason=..." : pin may or may not exist
	established bool
	op          *Op
	next        int // next scripted in-dialog request
	probesHit   map[string]int
	cross       bool // the SUBSCRIBE was relayed through another listener than the one it arrived at
	earlySent   bool
	scripted    int // number of scripted in-dialog requests (early ones are appended behind them)
}

type dlgWorld struct {
	w        *World
	p        *Plan
	c        *Cfg
	dialogs  map[string]*dlgModel
	byCall   map[string]*dlgModel
	arrivals map[string]int      // message id -> arrivals at the proxy (duplicates count)
	reached  map[string][]string // message id -> backend addresses that received it
	sentAt   map[string]time.Duration
	backends map[string]int // backend address -> listen index
	bsock    map[string]*simnet.UDPSock
	onReqAtBackend func(backend string, m *sipwire.Msg, id string)
	onRespAtUA     func(ua string, m *sipwire.Msg, id string)
	respScript     func(backend string, m *sipwire.Msg, id string) []respPlan
	// afterAnswer: datagrams the answering party writes right behind its last response (same delivery event)
	afterAnswer func(party string, m *sipwire.Msg, id string) []simnet.UDPOut
	exact          bool // deliveries with exact, fault-free latencies (C15)
	dispatchLog    []string // backend that received each unpinned request, in order of receipt
}

type respPlan struct {
	delay   time.Duration
	status  int
	toTag   string
	expires int  // -1 none
	b2b     bool // written right behind the previous response: both are in the proxy's socket queue, in order, at once
	bodyLen int // > 0: the answer carries a body of this many bytes
}

func newDlgWorld(w *World, p *Plan) *dlgWorld {
	d := &dlgWorld{w: w, p: p, c: &p.Cfg, dialogs: map[string]*dlgModel{}, byCall: map[string]*dlgModel{}, arrivals: map[string]int{},
		reached: map[string][]string{}, sentAt: map[string]time.Duration{}, backends: map[string]int{}, bsock: map[string]*simnet.UDPSock{}}
	for li, l := range p.Cfg.Listens {
		for _, b := range l.Backends {
			if strings.HasPrefix(b, "udp://") {
				addr := b[6:]
				if net.ParseIP(udpHost(addr)) == nil {
					continue // named backend: sockets are bound per resolved address by the world
				}
				d.backends[addr] = li
				d.bindBackend(addr)
			}
		}
	}
	return d
}

func udpHost(hostport string) string {
	h, _, _ := net.SplitHostPort(hostport)
	return h
}

func (d *dlgWorld) bindBackend(addr string) {
	if _, ok := d.bsock[addr]; ok {
		return
	}
	a := udpAddr(addr)
	s := d.w.N.ActorUDP(a.IP.String(), a.Port, nil)
	s.Handler = func(from *net.UDPAddr, data []byte) { d.backendReceives(addr, s, from, data) }
	d.bsock[addr] = s
}

func (d *dlgWorld) send(s *simnet.UDPSock, dst *net.UDPAddr, data []byte, delay time.Duration) {
	if d.exact {
		s.SendExact(dst, data, delay)
		return
	}
	if delay > 0 {
		d.w.K.After(delay, "actor-send", func() { s.Send(dst, data) })
		return
	}
	s.Send(dst, data)
}

// backendReceives: record, then answer per script from the backend's own address.
func (d *dlgWorld) backendReceives(addr string, s *simnet.UDPSock, from *net.UDPAddr, data []byte) {
	w := d.w
	m, _, err := sipwire.Parse(data)
	if err != nil {
		w.stat("backend-got-undecodable")
		return
	}
	id := msgID(m)
	if !m.IsRequest {
		w.stat("backend-got-response")
		if d.onRespAtUA != nil {
			d.onRespAtUA(addr, m, id)
		}
		return
	}
	d.reached[id] = append(d.reached[id], addr)
	w.Delivered = append(w.Delivered, &Delivery{Step: w.K.Step, At: w.K.Elapsed(), Proto: "udp", Local: addr, From: from.String(), Data: data})
	if d.onReqAtBackend != nil {
		d.onReqAtBackend(addr, m, id)
	}
	if m.Method == "ACK" {
		return
	}
	var plans []respPlan
	if d.respScript != nil {
		plans = d.respScript(addr, m, id)
	} else {
		plans = []respPlan{{delay: 200 * time.Microsecond, status: 200, expires: -1}}
	}
	var group []simnet.UDPOut
	var groupDelay time.Duration
	flush := func() {
		d.sendGroup(s, group, groupDelay)
		group = nil
	}
	defer func() {
		if len(group) > 0 && d.afterAnswer != nil {
			group = append(group, d.afterAnswer(addr, m, id)...)
		}
		flush()
	}()
	for _, rp := range plans {
		resp := buildResponse(m, rp, id)
		dst := responseTarget(m)
		if dst == nil {
			w.stat("backend-cannot-answer")
			continue
		}
		if vias, err := m.Vias(); err == nil && len(vias) > 0 && strings.EqualFold(vias[0].Transport, "TCP") {
			// the topmost Via asks for TCP: the backend connects to it
			d.w.K.After(rp.delay, "backend-tcp-answer", func() {
				c, err := d.w.TCPConnTo("be-"+addr, udpAddr(addr).IP.String(), 0, dst.String())
				if err != nil {
					d.w.stat("backend-cannot-connect")
					return
				}
				c.Write(resp)
			})
			continue
		}
		if !(rp.b2b && len(group) > 0) {
			flush()
			groupDelay = rp.delay
		}
		group = append(group, simnet.UDPOut{Dst: dst, Data: resp})
	}
}

// sendGroup: one datagram goes the usual way (faults apply unless the world is exact); several are one back-to-back batch.
func (d *dlgWorld) sendGroup(s *simnet.UDPSock, group []simnet.UDPOut, delay time.Duration) {
	switch len(group) {
	case 0:
	case 1:
		d.send(s, group[0].Dst, group[0].Data, delay)
	default:
		d.w.stat("probe:back-to-back-batch")
		s.SendBatchExact(group, delay)
	}
}

// responseTarget: where a UAS sends the response: top Via received/rport or sent-by.
func responseTarget(req *sipwire.Msg) *net.UDPAddr {
	vias, err := req.Vias()
	if err != nil || len(vias) == 0 {
		return nil
	}
	v := vias[0]
	host := v.Host
	port := v.EffPort()
	if rc, ok := v.Param("received"); ok && rc.V != "" {
		host = rc.V
		if rp, ok := v.Param("rport"); ok {
			if n, err := strconv.Atoi(rp.V); err == nil {
				port = n
			}
		}
	}
	ip := net.ParseIP(host)
	if ip == nil {
		return nil
	}
	return &net.UDPAddr{IP: ip, Port: port}
}

func buildResponse(req *sipwire.Msg, rp respPlan, reqID string) []byte {
	b := &sipwire.Builder{Start: fmt.Sprintf("SIP/2.0 %d %s", rp.status, reasonOf(rp.status))}
	for _, h := range req.Headers {
		switch sipwire.Canon(h.Name) {
		case "via", "from", "call-id", "cseq", "record-route":
			b.Add(h.Name, h.Value)
		case "to":
			v := h.Value
			if rp.toTag != "" && !hasTagParam(v) {
				v += ";tag=" + rp.toTag
			}
			b.Add(h.Name, v)
		}
	}
	b.Add("X-Sim-Id", fmt.Sprintf("%s.r%d", reqID, rp.status))
	if rp.expires >= 0 {
		b.Add("Expires", strconv.Itoa(rp.expires))
	}
	if rp.bodyLen > 0 {
		b.Add("Content-Type", "application/octet-stream")
		b.Body = bytes.Repeat([]byte("0123456789abcdef"), rp.bodyLen/16+1)[:rp.bodyLen]
	}
	return b.Bytes()
}

// hasTagParam: does the From / To value carry a tag parameter (what a quoted display name contains does not count)?
func hasTagParam(v string) bool {
	na, err := sipwire.ParseNameAddr(v)
	if err != nil {
		return strings.Contains(v, ";tag=")
	}
	_, ok := na.HParam("tag")
	return ok
}

func reasonOf(status int) string {
	switch status {
	case 100:
		return "Trying"
	case 180:
		return "Ringing"
	case 200:
		return "OK"
	case 481:
		return "Call/Transaction Does Not Exist"
	case 486:
		return "Busy Here"
	}
	return "Status"
}

// uaSocket: user agents record deliveries and feed the orchestrator.
func (d *dlgWorld) uaSocket(addr string) *simnet.UDPSock {
	if s, ok := d.w.udpActors[addr]; ok {
		return s
	}
	a := udpAddr(addr)
	s := d.w.N.ActorUDP(a.IP.String(), a.Port, nil)
	s.Handler = func(from *net.UDPAddr, data []byte) {
		w := d.w
		w.Delivered = append(w.Delivered, &Delivery{Step: w.K.Step, At: w.K.Elapsed(), Proto: "udp", Local: addr, From: from.String(), Data: data})
		m, _, err := sipwire.Parse(data)
		if err != nil {
			w.stat("ua-got-undecodable")
			return
		}
		if !m.IsRequest {
			if d.onRespAtUA != nil {
				d.onRespAtUA(addr, m, msgID(m))
			}
			return
		}
		// a request relayed to a user agent (SUBSCRIBE from a backend): answer it
		id := msgID(m)
		d.reached[id] = append(d.reached[id], addr)
		if d.onReqAtBackend != nil {
			d.onReqAtBackend(addr, m, id)
		}
		if m.Method != "ACK" {
			var plans []respPlan
			if d.respScript != nil {
				plans = d.respScript(addr, m, id)
			}
			var group []simnet.UDPOut
			var groupDelay time.Duration
			for _, rp := range plans {
				if dst := responseTarget(m); dst != nil {
					if !(rp.b2b && len(group) > 0) {
						d.sendGroup(s, group, groupDelay)
						group, groupDelay = nil, rp.delay
					}
					group = append(group, simnet.UDPOut{Dst: dst, Data: buildResponse(m, rp, id)})
				}
			}
			if len(group) > 0 && d.afterAnswer != nil {
				group = append(group, d.afterAnswer(addr, m, id)...)
			}
			d.sendGroup(s, group, groupDelay)
		}
	}
	d.w.udpActors[addr] = s
	return s
}

// ---- message construction for dialogs ----

type dlgIDs struct {
	callID           string
	fromURI, toURI   string
	fromTag, toTag   string
	ruri             string
	ua, ua2          string // addresses ip:port
}

func idsOf(op *Op) dlgIDs {
	s := op.S
	return dlgIDs{callID: s["callID"], fromURI: s["fromURI"], toURI: s["toURI"], fromTag: s["fromTag"], toTag: s["toTag"], ruri: s["ruri"], ua: s["ua"], ua2: s["ua2"]}
}

// decorate renders a From/To value with message-specific decorations that do
// not belong to the dialog identity.
func decorateAddr(style int, uri, tag string) string {
	var s string
	switch style % 5 {
	case 0:
		s = "<" + uri + ">"
	case 1:
		s = "\"Some;tag=zz9 <One>\" <" + uri + ">" // what a quoted display name contains is not a tag and not the address
	case 2:
		s = "Display <" + uri + ";user=phone>"
	case 3:
		s = "<" + uri + ";transport=udp>;x=1"
	default:
		s = "<" + uri + ">"
	}
	if strings.HasPrefix(uri, "tel:") || strings.HasPrefix(uri, "urn:") {
		s = "<" + uri + ">"
	}
	if style%11 == 4 && !strings.ContainsAny(uri, ";?,") {
		s = uri // the addr-spec form: no brackets
	}
	if tag != "" {
		s += ";tag=" + tag
	}
	if style%7 == 3 {
		s += ";epid=" + strconv.Itoa(style)
	}
	return s
}

type reqOpts struct {
	method  string
	cseq    int
	rev     bool
	style   int
	extra   []sipwire.Header
	noToTag bool
	srcAddr string
	id      string
	viaHost string
	viaPort int
}

func (ids dlgIDs) request(o reqOpts) []byte {
	from, to := decorateAddr(o.style, ids.fromURI, ids.fromTag), ""
	toTag := ids.toTag
	if o.noToTag {
		toTag = ""
	}
	to = decorateAddr(o.style/5, ids.toURI, toTag)
	if o.rev {
		from = decorateAddr(o.style, ids.toURI, ids.toTag)
		to = decorateAddr(o.style/5, ids.fromURI, ids.fromTag)
	}
	names := [][]string{{"From", "To", "Call-ID", "CSeq", "Via"}, {"f", "t", "i", "CSeq", "v"}, {"FROM", "TO", "CALL-ID", "CSEQ", "VIA"}, {"from", "to", "call-id", "cseq", "via"}}[o.style%4]
	src := udpAddr(o.srcAddr)
	vh, vp := o.viaHost, o.viaPort
	if vh == "" {
		vh, vp = src.IP.String(), src.Port
	}
	b := &sipwire.Builder{Start: o.method + " " + ids.ruri + " SIP/2.0"}
	b.Add(names[4], viaEntry("UDP", vh, vp, fmt.Sprintf(";branch=z9hG4bK%s", strings.ReplaceAll(o.id, ".", "x"))))
	b.Add(names[0], from)
	b.Add(names[1], to)
	b.Add(names[2], ids.callID)
	// LWS between the sequence number and the method: one blank, now and then two or a tab (the answer echoes it)
	b.Add(names[3], strconv.Itoa(o.cseq)+[]string{" ", " ", " ", " ", " ", " ", " ", "  ", "\t"}[o.style%9]+o.method)
	b.Add("X-Sim-Id", o.id)
	for _, h := range o.extra {
		b.Add(h.Name, h.Value)
	}
	return b.Bytes()
}

// ---- plan generation ----

func genDialogCfg(g *gen, nListen int, minB, maxB int) *Cfg {
	c := &Cfg{Name: g.pick("svc.example.com", "urn:service:sos", "svc.example.com,urn:service:sos")}
	for i := 0; i < nListen; i++ {
		l := ListenCfg{Addr: fmt.Sprintf("10.0.0.%d", i+1), UDP: 5060}
		nb := g.rng(minB, maxB)
		for b := 0; b < nb; b++ {
			l.Backends = append(l.Backends, fmt.Sprintf("udp://10.2.%d.%d:5070", i, b+1))
		}
		c.Listens = append(c.Listens, l)
	}
	c.Faults.MinLat = 50 * time.Microsecond
	c.Faults.MaxLat = 4 * time.Millisecond
	c.Faults.LatGrid = g.pick2(0, 4, 8, 16)
	return c
}

func svcRURI(g *gen, c *Cfg) string {
	m, _ := svcURIs(g, c.Name)
	return m[g.intn(len(m))]
}

func genDialogOp(g *gen, c *Cfg, n int, typ string) Op {
	li := g.intn(len(c.Listens))
	id := fmt.Sprintf("d%s-%d", g.tag, n)
	ua := fmt.Sprintf("%s:%d", topo.uas[g.intn(len(topo.uas))], g.pick2(5060, 5062, 5064))
	ua2 := fmt.Sprintf("%s:%d", topo.uas[g.intn(len(topo.uas))], g.pick2(5066, 5068))
	fromURI := g.pick("sip:"+g.user0()+"@caller.test", "sip:"+g.user0()+"@caller.test:5070", "tel:+1555"+strconv.Itoa(1000+g.intn(9000)), "sip:caller.test")
	toURI := g.pick("sip:"+g.user0()+"@svc.example.com", "urn:service:sos", "sip:"+g.user0()+"@callee.test:5080")
	if g.chance(20) {
		toURI = fromURI // self-addressed: both parties use the same URI
	}
	if typ == "subscribe" && !g.kfCross {
		// the subscriber's user agent is known to the proxy through this listener only
		ua = fmt.Sprintf("10.1.%d.%d:%d", 50+li, 1+g.intn(200), g.pick2(5060, 5062, 5064))
	}
	callID := "call-" + id + "@" + g.alnum(3, 6)
	if g.prevCallID != "" && g.chance(12) {
		// a Call-ID that extends another live call's Call-ID ('-' is an ordinary Call-ID character)
		callID = g.prevCallID + g.pick("-2", "-", "-b@x")
		if g.chance(35) && strings.ToUpper(g.prevCallID) != g.prevCallID {
			callID = strings.ToUpper(g.prevCallID) // Call-IDs are compared as written: another call
		}
	}
	g.prevCallID = callID
	fromTag, toTag := g.tagValue(), g.tagValue()
	if len(g.tagPool) > 0 && g.chance(70) {
		fromTag, toTag = g.tagPool[g.intn(len(g.tagPool))], g.tagPool[g.intn(len(g.tagPool))]
	}
	op := Op{Kind: "dialog", ID: id, Listen: li, DelayUs: int64(g.intn(20000)),
		S: map[string]string{"type": typ, "callID": callID, "fromURI": fromURI, "toURI": toURI,
			"fromTag": fromTag, "toTag": toTag, "ruri": svcRURI(g, c), "ua": ua, "ua2": ua2},
		I: map[string]int{"prov": g.intn(3), "style": g.intn(1000), "early": g.intn(4)}}
	if g.chance(30) {
		op.I["b2b"] = 1
	}
	if typ == "invite" && g.chance(15) {
		// the backend refuses the call; its answer carries both tags all the same, and what follows under these
		// identifiers (the ACK first of all) belongs to that backend
		op.I["initStatus"] = g.pick2(486, 404, 603, 302, 500, 480)
	}
	nreq := g.rng(1, 5)
	meths := []string{"INFO", "UPDATE", "INVITE", "MESSAGE", "REFER", "NOTIFY", "OPTIONS", "PRACK", "PUBLISH"}
	if typ == "subscribe" {
		meths = []string{"NOTIFY", "NOTIFY", "SUBSCRIBE", "INFO"}
	}
	for i := 0; i < nreq; i++ {
		sub := Op{Kind: "req", DelayUs: int64(g.intn(8000)), S: map[string]string{"method": meths[g.intn(len(meths))]}, I: map[string]int{"style": g.intn(1000)}}
		if g.chance(40) {
			sub.S["dir"] = "rev"
		}
		if sub.S["method"] == "NOTIFY" {
			sub.S["state"] = g.pick("active", "active;expires=600", "pending")
		}
		if (sub.S["method"] == "INVITE" || sub.S["method"] == "UPDATE" || sub.S["method"] == "INFO") && g.chance(30) {
			// a refused re-INVITE (or any refused mid-dialog request) leaves the dialog as it was
			sub.I["status"] = g.pick2(488, 491, 302, 500, 603, 404)
		}
		op.Sub = append(op.Sub, sub)
	}
	if g.chance(70) {
		fin := Op{Kind: "req", DelayUs: int64(g.intn(8000)), I: map[string]int{"style": g.intn(1000)}}
		if typ == "invite" {
			fin.S = map[string]string{"method": "BYE"}
			if g.chance(40) {
				fin.S["dir"] = "rev"
			}
			fin.I["status"] = g.pick2(200, 200, 481, 500)
		} else {
			fin.S = map[string]string{"method": "NOTIFY", "state": g.pick("terminated", "terminated", "terminated;reason=timeout")}
		}
		op.Sub = append(op.Sub, fin)
		// requests after termination are load-balanced like new ones
		for k := 0; k < g.intn(3); k++ {
			op.Sub = append(op.Sub, Op{Kind: "req", DelayUs: int64(500 + g.intn(4000)), S: map[string]string{"method": g.pick("INFO", "MESSAGE"), "after": "term"}, I: map[string]int{"style": g.intn(1000)}})
		}
	}
	return op
}

func genPlainOp(g *gen, c *Cfg, n int) Op {
	li := g.intn(len(c.Listens))
	return Op{Kind: "plain", ID: fmt.Sprintf("p%s-%d", g.tag, n), Listen: li, DelayUs: int64(g.intn(40000)),
		S: map[string]string{"method": g.pick("OPTIONS", "MESSAGE", "REGISTER", "INVITE", "SUBSCRIBE", "INFO"), "ruri": svcRURI(g, c),
			"ua": fmt.Sprintf("%s:%d", topo.uas[g.intn(len(topo.uas))], 5060)}, I: map[string]int{"style": g.intn(1000)}}
}

func genStickyPlan(seed uint64, tier string) *Plan {
	g := newGen(seed)
	if g.chance(6) {
		// dialogs established by TCP backends over connections the proxy opened (tcpsticky.go)
		return genTCPStickyPlan(seed, tier)
	}
	if g.chance(6) && borrowDepth == 0 {
		// the lifetime worlds of C15 (exact clock, re-INVITEs, terminations, subscriptions): probes inside a pin's
		// lifetime must reach the pinned backend - judged by C15's model, reported under C04's rule
		borrowDepth++
		p := genLifetimePlan(seed^0x15c04, tier)
		borrowDepth--
		// (not the purge / repin variants: they look into the pin table from the harness, which the race detector of
		// C09 - it borrows these worlds in turn - would hold against the program)
		if p.Variant != "tcp-backends" && p.Variant != "sticky" && p.Variant != "purge" && p.Variant != "repin" {
			p.Variant = "lifetime:" + p.Variant
			return p
		}
	}
	if g.chance(10) {
		// pins while the backend set changes by name resolution: a dialog stays with its backend also after that
		// backend was withdrawn from the rotation (the membership world of C19, judged by C04's rule)
		p := genMembershipPlan(seed, tier)
		p.Variant = "membership"
		return p
	}
	p := &Plan{Sched: g.intn(3), PCTDepth: 1 + g.intn(3)}
	c := genDialogCfg(g, 1+g.intn(2), 2, 6)
	c.DialogTimeout = 3600
	c.Faults.DupPct = g.pick2(0, 0, 5, 15)
	c.Faults.DropPct = g.pick2(0, 0, 0, 5)
	// a datagram write of the proxy fails now and then (ENOBUFS): that datagram is lost like a dropped one,
	// and nothing else may change
	c.Faults.UDPWriteErrPct = g.pick2(0, 0, 0, 3)
	longCalls := g.chance(15)
	if longCalls {
		// calls that outlive the configured dialog timeout because the establishing answers promise more (Expires)
		c.DialogTimeout = g.rng(20, 90)
		c.Knobs = map[string]int{"longCalls": 1, "longExpires": g.pick2(7200, 7200, 86400, 604800, 2147483647)}
	}
	if c.Knobs == nil {
		c.Knobs = map[string]int{}
	}
	c.Knobs["subStatus"] = g.pick2(200, 200, 202) // how user agents accept a SUBSCRIBE
	p.Cfg = *c
	nd := g.rng(1, 6)
	if g.chance(25) {
		nd = g.rng(6, 50)
	}
	if openFinding("KF-C04-1") && g.chance(6) {
		// dedicated slice: subscribers share user agents across listeners
		g.kfCross = true
		p.Variant = "kf:KF-C04-1"
	} else if !openFinding("KF-C04-1") {
		g.kfCross = true // nothing to avoid
	}
	if g.chance(25) {
		g.tagPool = []string{g.tagValue(), g.tagValue()}
		if g.chance(35) {
			g.tagPool[1] = strings.ToUpper(g.tagPool[0]) // tags are compared as written
			if g.tagPool[1] == g.tagPool[0] {
				g.tagPool[1] = strings.ToLower(g.tagPool[0]) + "x"
			}
		}
	}
	n := 0
	for i := 0; i < nd; i++ {
		n++
		typ := "invite"
		if g.chance(25) {
			typ = "subscribe"
		}
		dop := genDialogOp(g, &p.Cfg, n, typ)
		if longCalls {
			for si := range dop.Sub {
				if dop.Sub[si].S["after"] != "term" && g.chance(40) {
					dop.Sub[si].DelayUs = int64(g.rng(60, 400)) * 1000000
				}
			}
		}
		p.Ops = append(p.Ops, dop)
		for k := g.intn(3); k > 0; k-- {
			n++
			p.Ops = append(p.Ops, genPlainOp(g, &p.Cfg, n))
		}
	}
	return p
}

// ---- orchestration ----

func (d *dlgWorld) listenerAddr(li int) *net.UDPAddr {
	l := d.c.Listens[li]
	return &net.UDPAddr{IP: net.ParseIP(l.Addr), Port: l.UDP}
}

func (d *dlgWorld) sendRequest(from string, li int, data []byte, id string) {
	s := d.uaSocket(from)
	d.sentAt[id] = d.w.K.Elapsed()
	d.send(s, d.listenerAddr(li), data, 0)
}

// startDialog launches the scripted dialog op (kernel context).
func (d *dlgWorld) startDialog(op *Op) {
	m := &dlgModel{id: op.ID, typ: op.S["type"], listen: op.Listen, op: op, probesHit: map[string]int{}, scripted: len(op.Sub)}
	d.dialogs[op.ID] = m
	ids := idsOf(op)
	d.byCall[ids.callID] = m
	d.uaSocket(ids.ua)
	d.uaSocket(ids.ua2)
	if m.typ == "invite" {
		data := ids.request(reqOpts{method: "INVITE", cseq: 1, style: op.I["style"], noToTag: true, srcAddr: ids.ua, id: op.ID + ".inv"})
		d.sendRequest(ids.ua, op.Listen, data, op.ID+".inv")
		return
	}
	// subscribe: a backend of the listener issues SUBSCRIBE through the proxy
	// towards the user agent, which must already be known to the proxy (it
	// sent a request before): let it register first.
	reg := dlgIDs{callID: "reg-" + op.ID, fromURI: ids.toURI, toURI: ids.toURI, fromTag: "r" + ids.toTag, ruri: ids.ruri, ua: ids.ua}
	d.sendRequest(ids.ua, op.Listen, reg.request(reqOpts{method: "REGISTER", cseq: 1, style: 0, noToTag: true, srcAddr: ids.ua, id: op.ID + ".reg"}), op.ID+".reg")
}

// subscribeFromBackend: backend b sends SUBSCRIBE with a Route to the UA.
func (d *dlgWorld) subscribeFromBackend(m *dlgModel, backend string) {
	op := m.op
	ids := idsOf(op)
	ua := udpAddr(ids.ua)
	sub := dlgIDs{callID: ids.callID, fromURI: ids.fromURI, toURI: ids.toURI, fromTag: ids.fromTag, ruri: "sip:" + ids.ua}
	data := sub.request(reqOpts{method: "SUBSCRIBE", cseq: 1, style: op.I["style"], noToTag: true, srcAddr: backend, id: op.ID + ".sub",
		extra: []sipwire.Header{{Name: "Route", Value: fmt.Sprintf("<sip:%s:%d;lr>", ua.IP, ua.Port)}, {Name: "Event", Value: "presence"}}})
	d.sentAt[op.ID+".sub"] = d.w.K.Elapsed()
	d.send(d.bsock[backend], d.listenerAddr(op.Listen), data, 0)
	m.pinned = backend // candidate: confirmed when the answer has been relayed back to it
}

// nextInDialog sends the next scripted in-dialog request of m.
func (d *dlgWorld) nextInDialog(m *dlgModel) {
	op := m.op
	if m.next >= len(op.Sub) {
		return
	}
	sub := &op.Sub[m.next]
	idx := m.next
	m.next++
	d.w.K.After(time.Duration(sub.DelayUs)*time.Microsecond, "dlg-next", func() {
		sender, data, id := d.buildInDialog(m, idx)
		d.sendRequest(sender, op.Listen, data, id)
		if sub.S["foreign"] != "" {
			// nobody answers a request the proxy drops: the script goes on
			d.w.stat("probe:in-dialog-request-with-foreign-request-uri")
			d.w.K.After(2*time.Millisecond, "dlg-after-foreign", func() { d.nextInDialog(m) })
		}
	})
}

// buildInDialog renders scripted in-dialog request idx of m.
func (d *dlgWorld) buildInDialog(m *dlgModel, idx int) (sender string, data []byte, id string) {
	op := m.op
	sub := &op.Sub[idx]
	ids := idsOf(op)
	id = fmt.Sprintf("%s.s%d", op.ID, idx)
	sender = ids.ua
	rev := sub.S["dir"] == "rev"
	if rev {
		sender = ids.ua2
	}
	o := reqOpts{method: sub.S["method"], cseq: 10 + idx, rev: rev, style: sub.I["style"], srcAddr: sender, id: id}
	if m.typ == "subscribe" {
		// NOTIFY comes from the notifier (the UA side): From = To of the SUBSCRIBE
		o.rev = !rev
	}
	if st := sub.S["state"]; st != "" {
		o.extra = append(o.extra, sipwire.Header{Name: "Subscription-State", Value: st})
	}
	if o.method == "NOTIFY" {
		o.extra = append(o.extra, sipwire.Header{Name: "Event", Value: "presence"})
	}
	if f := sub.S["foreign"]; f != "" {
		ids.ruri = f // a request of the dialog that is not addressed to the service (and carries no Route)
	}
	return sender, ids.request(o), id
}

func (d *dlgWorld) sendPlain(op *Op) {
	ids := dlgIDs{callID: "plain-" + op.ID, fromURI: "sip:x" + op.ID + "@caller.test", toURI: "sip:svc@svc.example.com", fromTag: "pt" + op.ID, ruri: op.S["ruri"]}
	data := ids.request(reqOpts{method: op.S["method"], cseq: 1, style: op.I["style"], noToTag: true, srcAddr: op.S["ua"], id: op.ID})
	d.sendRequest(op.S["ua"], op.Listen, data, op.ID)
}

// dialogOfID maps a message id "<dlg>.<step>" to its dialog and step.
func splitID(id string) (string, string) {
	i := strings.Index(id, ".")
	if i < 0 {
		return id, ""
	}
	return id[:i], id[i+1:]
}

// ---- C04 execution ----

func execSticky(t *testing.T, p *Plan) *Result {
	if p.Variant == "membership" {
		return execMembership(t, p)
	}
	if p.Variant == "tcp-backends" {
		return execTCPSticky(t, p)
	}
	if strings.HasPrefix(p.Variant, "lifetime:") {
		q := *p
		q.Variant = strings.TrimPrefix(p.Variant, "lifetime:")
		r := execLifetime(t, &q)
		if !p.Replay {
			p.Tape = q.Tape
		}
		r.Judged = r.Stats["judged:C15"]
		return r
	}
	r := &Result{}
	var d *dlgWorld
	w := runWorld(t, p, func(w *World) {
		d = newDlgWorld(w, p)
		d.installStickyRules("C04")
		for i := range p.Ops {
			op := &p.Ops[i]
			switch op.Kind {
			case "dialog":
				w.K.After(time.Duration(op.DelayUs)*time.Microsecond, "start-dialog", func() { d.startDialog(op) })
			case "plain":
				w.K.After(time.Duration(op.DelayUs)*time.Microsecond, "plain", func() { d.sendPlain(op) })
			}
		}
		if p.Cfg.Knobs["longCalls"] == 1 {
			w.stat("probe:calls-outliving-the-dialog-timeout")
			w.K.Settle(2 * time.Hour)
		} else {
			w.K.Settle(5 * time.Minute)
		}
		if w.dead() {
			return
		}
		d.judgeEmissionsC04("C04")
	})
	finish(w, p, r)
	r.Judged = w.Stats["judged:C04"]
	if p.Prop == "C03" {
		r.Judged = w.Stats["judged:C03"]
	}
	nb := 0
	for _, l := range p.Cfg.Listens {
		nb += len(l.Backends)
	}
	r.Class = fmt.Sprintf("L%d/B%d/ops%d/dup%d", len(p.Cfg.Listens), nb, len(p.Ops), p.Cfg.Faults.DupPct)
	r.Sample = dlgSample(p)
	return r
}

func dlgSample(p *Plan) json.RawMessage {
	var first *Op
	nd, np := 0, 0
	for i := range p.Ops {
		if p.Ops[i].Kind == "dialog" {
			nd++
			if first == nil {
				first = &p.Ops[i]
			}
		} else if p.Ops[i].Kind == "plain" {
			np++
		}
	}
	m := map[string]interface{}{"dialogs": nd, "plain_requests": np, "listeners": p.Cfg.Listens, "faults": p.Cfg.Faults}
	if first != nil {
		var steps []string
		for _, s := range first.Sub {
			steps = append(steps, s.S["method"]+"/"+s.S["dir"]+s.S["state"])
		}
		m["first_dialog"] = map[string]interface{}{"type": first.S["type"], "from": first.S["fromURI"], "to": first.S["toURI"], "ruri": first.S["ruri"], "steps": steps}
	}
	b, _ := json.Marshal(m)
	return b
}

// installStickyRules wires the reactive behaviour and the online oracle.
func (d *dlgWorld) installStickyRules(prop string) {
	w := d.w
	d.respScript = func(party string, m *sipwire.Msg, id string) []respPlan {
		dlg, step := splitID(id)
		mod := d.dialogs[dlg]
		base := time.Duration(100+w.K.Draw(3000)) * time.Microsecond
		if mod == nil {
			return []respPlan{{delay: base, status: 200, expires: -1}}
		}
		ids := idsOf(mod.op)
		exp := -1
		if d.c.Knobs["longCalls"] == 1 {
			exp = d.c.Knobs["longExpires"]
			if exp == 0 {
				exp = 7200
			}
		}
		subStatus := d.c.Knobs["subStatus"]
		if subStatus == 0 {
			subStatus = 200
		}
		switch {
		case step == "inv":
			var out []respPlan
			switch mod.op.I["prov"] {
			case 1:
				out = append(out, respPlan{delay: base, status: 100, expires: -1})
			case 2:
				out = append(out, respPlan{delay: base, status: 180, toTag: ids.toTag, expires: exp})
			}
			final := base + time.Duration(200+w.K.Draw(3000))*time.Microsecond
			if mod.op.I["prov"] == 2 && mod.op.I["early"] > 0 {
				final += 20 * time.Millisecond // room for an early-dialog exchange
			}
			st := 200
			if s := mod.op.I["initStatus"]; s != 0 {
				st = s
				w.stat("probe:initial-invite-refused-with-both-tags")
			}
			out = append(out, respPlan{delay: final, status: st, toTag: ids.toTag, expires: exp})
			return out
		case step == "sub":
			return []respPlan{{delay: base, status: subStatus, toTag: ids.toTag, expires: exp}}
		case strings.HasPrefix(step, "s"):
			idx, _ := strconv.Atoi(step[1:])
			status := 200
			if idx < len(mod.op.Sub) && mod.op.Sub[idx].I["status"] != 0 {
				status = mod.op.Sub[idx].I["status"]
			}
			if idx < len(mod.op.Sub) && (mod.op.Sub[idx].S["method"] == "INVITE" || mod.op.Sub[idx].S["method"] == "SUBSCRIBE") {
				// every answer to an INVITE / SUBSCRIBE of the dialog establishes the pin anew with its own lifetime
				// (the latest answer decides): in long calls all of them promise the same
				return []respPlan{{delay: base, status: status, expires: exp}}
			}
			return []respPlan{{delay: base, status: status, expires: -1}}
		}
		return []respPlan{{delay: base, status: 200, expires: -1}}
	}
	d.afterAnswer = func(party string, m *sipwire.Msg, id string) []simnet.UDPOut {
		// a notifier that answers the SUBSCRIBE and writes its first NOTIFY right behind the answer: the proxy finds
		// both in its socket queue, the answer first
		dlg, step := splitID(id)
		mod := d.dialogs[dlg]
		if mod == nil || step != "sub" || mod.op.I["b2b"] != 1 || mod.next != 0 || len(mod.op.Sub) == 0 || mod.cross {
			return nil
		}
		sub := &mod.op.Sub[0]
		if sub.S["method"] != "NOTIFY" || sub.S["dir"] == "rev" || party != idsOf(mod.op).ua {
			return nil
		}
		_, data, nid := d.buildInDialog(mod, 0)
		mod.next = 1
		mod.established = true
		mod.pinnedAt = w.K.Elapsed()
		d.sentAt[nid] = w.K.Elapsed()
		w.stat("probe:notify-right-behind-the-subscribe-answer")
		return []simnet.UDPOut{{Dst: d.listenerAddr(mod.op.Listen), Data: data}}
	}
	d.onReqAtBackend = func(party string, m *sipwire.Msg, id string) {
		dlg, step := splitID(id)
		mod := d.dialogs[dlg]
		if mod == nil {
			if _, isBackend := d.backends[party]; isBackend {
				d.dispatchLog = append(d.dispatchLog, party)
			}
			return
		}
		switch {
		case step == "sub":
			// the user agent sees through which listener the SUBSCRIBE was relayed:
			// its answer returns there
			if vs, err := m.Vias(); err == nil && len(vs) > 0 && vs[0].Host != d.c.Listens[mod.listen].Addr {
				if li, _ := d.c.listenerAt(vs[0].Host, vs[0].EffPort()); li >= 0 {
					mod.cross = true
					w.stat("probe:subscribe-relayed-through-another-listener")
				}
			}
		case step == "inv":
			// the chosen backend; several arrivals (duplicates) may choose differently:
			// the pin follows the response the caller observes
		case step == "reg":
			// the registrar answered; now a backend of this listener subscribes
			if mod.pinned == "" && !mod.established {
				var bs []string
				for b, li := range d.backends {
					if li == mod.listen {
						bs = append(bs, b)
					}
				}
				sort.Strings(bs)
				b := bs[mod.op.I["style"]%len(bs)]
				d.subscribeFromBackend(mod, b)
			}
		case step == "e0":
			if _, isBackend := d.backends[party]; !isBackend || mod.dontcare {
				return
			}
			if distinctCount(d.reached[mod.id+".inv"]) > 1 {
				return
			}
			w.Stats["judged:"+prop]++
			if party != mod.pinned {
				mod.dontcare = true
				w.Viol = append(w.Viol, Violation{Prop: prop, Rule: "in-dialog-request-left-its-backend", Msg: id, Sig: "type=invite;early-dialog",
					Detail: fmt.Sprintf("early-dialog request %s of dialog %s (a tagged 18x from %s was observed, the final answer not yet) reached backend %s\n%s", id, mod.id, mod.pinned, party, clip(string(mustBytes(m)), 400))})
			} else {
				w.stat("in-dialog-request-at-pinned-backend")
			}
		case strings.HasPrefix(step, "s"):
			idx, _ := strconv.Atoi(step[1:])
			sub := &mod.op.Sub[idx]
			if _, isBackend := d.backends[party]; !isBackend {
				return
			}
			if sub.S["foreign"] != "" {
				return // judged from the emissions at the end (C03)
			}
			w.Stats["judged:"+prop]++
			if sub.S["after"] == "term" || mod.terminated {
				// after termination: load-balanced; which backend is not prescribed
				w.stat("after-termination-dispatch")
				if party != mod.pinned {
					w.stat("probe:after-termination-left-pinned-backend")
				}
				return
			}
			if mod.typ == "invite" && distinctCount(d.reached[mod.id+".inv"]) > 1 {
				// a duplicate of the INVITE was load-balanced to a second backend which
				// answered too: the statement does not say whose pin holds
				w.stat("dontcare:duplicated-invite-answered-by-two-backends")
				mod.dontcare = true
			}
			if mod.dontcare {
				w.stat("dontcare:dialog-without-unique-pin")
				return
			}
			if party != mod.pinned && (sub.S["method"] == "BYE" || strings.HasPrefix(sub.S["state"], "terminated")) && d.emittedCount(id) > 1 {
				// a duplicated terminating request: the first copy dissolves the pin,
				// the second is load-balanced; which copy arrives first is not decided
				w.stat("dontcare:duplicate-of-terminating-request")
				return
			}
			if party != mod.pinned && d.terminationPassed(mod) {
				// the terminating request (or the answer to the BYE) has already passed the proxy - it may still be on
				// its way to the backend, so the model has not seen it yet - and this is a late copy of an earlier
				// request: load-balanced, rightly
				w.stat("dontcare:late-copy-after-termination-passed-the-proxy")
				return
			}
			if party != mod.pinned {
				mclass := "other"
				if sub.S["method"] == "INVITE" || sub.S["method"] == "SUBSCRIBE" {
					mclass = "INVITE-or-SUBSCRIBE"
				}
				sig := fmt.Sprintf("type=%s;dir=%s;method=%s;sameURI=%v;crossListener=%v", mod.typ, sub.S["dir"], mclass, mod.op.S["fromURI"] == mod.op.S["toURI"], mod.cross)
				// one report per dialog: what follows a misrouted request is a consequence
				mod.dontcare = true
				w.Viol = append(w.Viol, Violation{Prop: prop, Rule: "in-dialog-request-left-its-backend", Msg: id, Sig: sig,
					Detail: fmt.Sprintf("%s %s of %s dialog %s (From/To %s, direction %q) reached backend %s, the dialog was answered by %s\n%s", sub.S["method"], id, mod.typ, mod.id, mod.op.S["fromURI"]+" / "+mod.op.S["toURI"], sub.S["dir"], party, mod.pinned, clip(string(mustBytes(m)), 500))})
			} else {
				w.stat("in-dialog-request-at-pinned-backend")
			}
		}
	}
	d.onRespAtUA = func(party string, m *sipwire.Msg, id string) {
		// id = <req>.r<status>
		i := strings.LastIndex(id, ".r")
		if i < 0 {
			return
		}
		reqID := id[:i]
		dlg, step := splitID(reqID)
		mod := d.dialogs[dlg]
		if mod == nil {
			return
		}
		ids := idsOf(mod.op)
		switch {
		case step == "inv":
			tos := m.Get("to")
			hasTag := len(tos) > 0 && hasTagParam(tos[0])
			if !hasTag {
				return
			}
			// which backend sent this response? It carries the proxy's Via; the
			// sender is known from the response id's origin: backends put nothing,
			// so use the delivery's history: the backend that answered is the one
			// that received the INVITE this response answers (recorded per arrival).
			src := d.responder(reqID, m)
			if src == "" {
				return
			}
			first := !mod.established
			if mod.established && mod.pinned != src {
				// a duplicated INVITE reached two backends and both answered:
				// which pin holds is a race the statement does not decide
				mod.dontcare = true
				w.stat("dontcare:two-backends-answered-duplicated-invite")
			}
			mod.established = true
			mod.pinned = src
			mod.pinnedAt = w.K.Elapsed()
			if m.Status < 200 && !mod.earlySent && mod.op.I["early"] > 0 {
				// an early dialog (tagged 18x): PRACK / UPDATE / INFO before the final answer
				mod.earlySent = true
				meth := []string{"PRACK", "UPDATE", "INFO"}[mod.op.I["early"]%3]
				id := mod.id + ".e0"
				d.sendRequest(ids.ua, mod.listen, ids.request(reqOpts{method: meth, cseq: 5, style: mod.op.I["style"] + 7, srcAddr: ids.ua, id: id}), id)
				w.stat("probe:early-dialog-request-before-final-answer")
			}
			if m.Status >= 200 && first || (m.Status >= 200 && mod.next == 0) {
				if mod.next == 0 {
					// ACK, then the scripted requests
					ack := ids.request(reqOpts{method: "ACK", cseq: 1, style: mod.op.I["style"] + 1, srcAddr: ids.ua, id: mod.id + ".ack"})
					d.sendRequest(ids.ua, mod.listen, ack, mod.id+".ack")
					d.nextInDialog(mod)
				}
			}
		case step == "sub":
			// the subscriber (a backend) observed the answer: the pin is established
			mod.established = true
			mod.pinnedAt = w.K.Elapsed()
			if mod.next == 0 {
				d.nextInDialog(mod)
			}
		case strings.HasPrefix(step, "s"):
			idx, _ := strconv.Atoi(step[1:])
			sub := &mod.op.Sub[idx]
			if sub.S["method"] == "BYE" {
				mod.terminated = true
			}
			if idx == mod.next-1 {
				d.nextInDialog(mod)
			}
		}
	}
	// ACK has no answer; NOTIFY termination is observed when it is sent.
	prev := d.onReqAtBackend
	d.onReqAtBackend = func(party string, m *sipwire.Msg, id string) {
		prev(party, m, id)
		dlg, step := splitID(id)
		mod := d.dialogs[dlg]
		if mod == nil || !strings.HasPrefix(step, "s") {
			return
		}
		idx, _ := strconv.Atoi(step[1:])
		if idx >= len(mod.op.Sub) {
			return
		}
		if st := mod.op.Sub[idx].S["state"]; strings.HasPrefix(st, "terminated") {
			if st == "terminated" {
				mod.terminated = true
			} else {
				mod.dontcare = true
			}
		}
	}
}

// terminationPassed: has the proxy already relayed what dissolves the pin of this dialog (a NOTIFY with
// Subscription-State terminated, or the answer to a BYE)?
func (d *dlgWorld) terminationPassed(mod *dlgModel) bool {
	for idx := range mod.op.Sub {
		sub := &mod.op.Sub[idx]
		id := fmt.Sprintf("%s.s%d", mod.id, idx)
		switch {
		case strings.HasPrefix(sub.S["state"], "terminated"):
			if d.emittedCount(id) > 0 {
				return true
			}
		case sub.S["method"] == "BYE":
			for _, e := range d.w.decodeEmissions(0) {
				if strings.HasPrefix(e.ID, id+".r") {
					return true
				}
			}
		}
	}
	return false
}

// emittedCount: how many times the proxy relayed (or tried to relay: a datagram write that failed counts, the
// message was processed) message id.
func (d *dlgWorld) emittedCount(id string) int {
	n := 0
	for _, e := range d.w.decodeEmissions(0) {
		if e.ID == id {
			n++
		}
	}
	return n // datagram writes that failed are in the emissions too, marked
}

func distinctCount(xs []string) int {
	m := map[string]bool{}
	for _, x := range xs {
		m[x] = true
	}
	return len(m)
}

func mustBytes(m *sipwire.Msg) []byte {
	b := &sipwire.Builder{Start: m.StartLine, Headers: m.Headers, Body: m.Body, NoCL: true}
	return b.Bytes()
}

// responder: the backend whose answer this is. Responses carry no sender mark
// of their own, so the harness stamps one: the response id's request was
// received by exactly the backends in reached[reqID]; with one receiver the
// answer is his, with several (duplicated INVITE) the Via branch tells.
func (d *dlgWorld) responder(reqID string, m *sipwire.Msg) string {
	bs := d.reached[reqID]
	if len(bs) == 0 {
		return ""
	}
	uniq := map[string]bool{}
	for _, b := range bs {
		uniq[b] = true
	}
	if len(uniq) == 1 {
		return bs[0]
	}
	return "" // ambiguous
}

// judgeEmissionsC04: at quiescence, every arrival of an in-dialog request
// (sent after the pin was observed) produced exactly one emission, to the
// pinned backend and to nothing else.
func (d *dlgWorld) judgeEmissionsC04(prop string) {
	w := d.w
	arr := map[string]int{}
	for _, ev := range w.N.Events {
		_ = ev
	}
	byID := map[string][]*Emitted{}
	for _, e := range w.decodeEmissions(0) {
		byID[e.ID] = append(byID[e.ID], e)
	}
	_ = arr
	for _, mod := range d.dialogs {
		if !mod.established || mod.dontcare {
			continue
		}
		for idx := range mod.op.Sub {
			sub := &mod.op.Sub[idx]
			id := fmt.Sprintf("%s.s%d", mod.id, idx)
			if sub.S["foreign"] != "" {
				if _, sent := d.sentAt[id]; sent {
					w.Stats["judged:C03"]++
					if ems := byID[id]; len(ems) > 0 {
						w.Viol = append(w.Viol, Violation{Prop: "C03", Rule: "emitted-but-should-drop", Msg: id, Sig: "class=drop;in-dialog",
							Detail: fmt.Sprintf("request %s of dialog %s (pinned to %s) has the foreign Request-URI %s, no Route and no static route for its To host: it matches none of the three rules, yet it was sent to %s\n%s", id, mod.id, mod.pinned, sub.S["foreign"], ems[0].E.Dst, clip(string(ems[0].E.Data), 400))})
					}
				}
				continue
			}
			if sub.S["after"] == "term" {
				continue
			}
			ems := byID[id]
			dsts := map[string]int{}
			for _, e := range ems {
				dsts[e.E.Dst]++
			}
			if len(dsts) > 1 {
				if mod.terminated {
					continue
				}
				if (sub.S["method"] == "BYE" || strings.HasPrefix(sub.S["state"], "terminated")) && ems[0].E.Dst == mod.pinned {
					// a duplicated terminating request whose copies were all lost behind the proxy: the first copy went
					// to the pinned backend and dissolved the pin, the later ones are load-balanced
					w.stat("dontcare:duplicate-of-terminating-request")
					continue
				}
				if mod.cross {
					// never pinned at this listen entry (the open finding about listen entries that do not share their
					// dialog tables): copies of one request are load-balanced apart - the same finding, reported under its rule
					w.Viol = append(w.Viol, Violation{Prop: prop, Rule: "in-dialog-request-left-its-backend", Msg: id,
						Sig:    fmt.Sprintf("type=%s;dir=%s;method=several-backends;sameURI=%v;crossListener=true", mod.typ, sub.S["dir"], mod.op.S["fromURI"] == mod.op.S["toURI"]),
						Detail: fmt.Sprintf("request %s of dialog %s (subscriber's peer learned through another listen entry) was emitted to %v", id, mod.id, dsts)})
					continue
				}
				w.Viol = append(w.Viol, Violation{Prop: prop, Rule: "in-dialog-request-sent-to-several-backends", Msg: id,
					Detail: fmt.Sprintf("request %s of dialog %s was emitted to %v", id, mod.id, dsts)})
			}
		}
	}
}

func init() {
	register("C04", genStickyPlan, execSticky)
}
