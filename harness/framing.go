//go:build verif

package main

import (
	"bytes"
	"encoding/json"
	"fmt"
	"strconv"
	"strings"
	"testing"
	"time"

	"verif/sim/simnet"
	"verif/sim/sipwire"
)

// C11: TCP framing depends on the bytes, not on the segmentation. A stream of
// generated messages is written to a TCP listener in segments chosen by the
// plan; every Read size is chosen by the kernel; at quiescence the emissions
// attributable to the connection must be exactly the messages of the stream,
// in order, each equal under the C01 comparator.

func genFramingPlan(seed uint64, tier string) *Plan {
	g := newGen(seed)
	p := &Plan{Sched: g.intn(3), PCTDepth: 1 + g.intn(3)}
	c := &p.Cfg
	c.Name = "svc.example.com"
	l := ListenCfg{Addr: "10.0.0.1", TCP: 5060}
	if g.chance(50) {
		l.UDP = 5060
	}
	tcpBackend := g.chance(50)
	nb := 1 + g.intn(3)
	for b := 0; b < nb; b++ {
		addr := fmt.Sprintf("10.2.0.%d:5070", b+1)
		if tcpBackend {
			l.Backends = append(l.Backends, "tcp://"+addr)
			c.TCPSinks = append(c.TCPSinks, addr)
		} else {
			l.Backends = append(l.Backends, "udp://"+addr)
		}
	}
	c.Listens = []ListenCfg{l}
	c.Faults.MinLat = 20 * time.Microsecond
	c.Faults.MaxLat = 2 * time.Millisecond
	c.Faults.ShortReadPct = g.pick2(0, 20, 60)
	nconn := 1 + g.intn(3)
	small := g.chance(45) // short streams: systematic single / double cuts
	for ci := 0; ci < nconn; ci++ {
		nm := 1 + g.intn(8)
		if small {
			nm = 1 + g.intn(2)
		}
		var stream []byte
		var bounds []int
		var prevMsg []byte
		for i := 0; i < nm; i++ {
			for k := g.pick2(0, 0, 0, 1, 2, 3); k > 0; k-- {
				stream = append(stream, '\r', '\n') // keep-alive
			}
			m := genFramedMessage(g, small, tcpBackend)
			if i > 0 && g.chance(15) {
				// a request that repeats the method and the Via branch of the one before it (the same transaction sent
				// again, e.g. a re-sent INVITE that has had no final answer yet)
				m = sameTransactionAs(prevMsg, m)
			}
			prevMsg = m
			stream = append(stream, m...)
			bounds = append(bounds, len(stream))
		}
		op := Op{Kind: "stream", Conn: fmt.Sprintf("conn%d", ci), SrcIP: fmt.Sprintf("10.1.0.%d", 1+g.intn(3)), Data: stream, I: map[string]int{"msgs": nm}}
		// segmentation
		n := len(stream)
		switch {
		case small && n > 2 && g.chance(60):
			// seed -> cut index: consecutive seeds walk through all positions
			c1 := 1 + int(seed%uint64(n-1))
			op.Cuts = []int{c1}
			if g.chance(40) {
				c2 := 1 + int((seed/7)%uint64(n-1))
				op.Cuts = []int{c1, c2}
			}
		case g.chance(15):
			// one-byte segments over a window
			start := g.intn(n)
			for i := start; i < n && i < start+64; i++ {
				op.Cuts = append(op.Cuts, i)
			}
		default:
			k := g.intn(12)
			for i := 0; i < k && n > 1; i++ {
				var c int
				switch g.intn(4) {
				case 0: // near a line end
					c = nearByte(g, stream, '\n')
				case 1: // near a message boundary
					b := bounds[g.intn(len(bounds))]
					c = b - 2 + g.intn(5)
				case 2: // near a multiple of the bufio window
					c = 4096*(1+g.intn(1+n/4096)) - 2 + g.intn(5)
				default:
					c = 1 + g.intn(n-1)
				}
				if c > 0 && c < n {
					op.Cuts = append(op.Cuts, c)
				}
			}
		}
		sortInts(op.Cuts)
		if len(op.Cuts) > 0 && len(op.Cuts) <= 16 && g.chance(20) {
			// a slow sender: seconds (or more than a minute) pass between segments, also in the middle of a message;
			// now and then the stream takes more than an hour in all
			op.I["gapMs"] = g.pick2(900, 6000, 31000, 70000, 70000, 1300000)
		}
		p.Ops = append(p.Ops, op)
	}
	if g.chance(15) && len(p.Ops) > 0 {
		// the first stream does not come over a connection the proxy accepted but over one it dialled itself: a client
		// request is routed to a TCP next hop, and that hop sends the stream back over the connection - and closes it
		// right behind the last byte
		p.Ops[0].S = map[string]string{"outbound": "1"}
		p.Ops[0].I["gapMs"] = 0
		p.Variant = "outbound-stream"
		c.TCPSinks = append(c.TCPSinks, "10.3.0.1:5060")
	}
	if !tcpBackend && g.chance(40) {
		// the UDP backends answer every request; the answers travel back over the stream's own connection while the
		// stream is still being received
		c.Knobs = map[string]int{"answer": 1}
	}
	return p
}

// sameTransactionAs rewrites m so that it has prev's method (request line and CSeq) and top Via branch.
func sameTransactionAs(prev, m []byte) []byte {
	pm, _, err1 := sipwire.Parse(prev)
	mm, _, err2 := sipwire.Parse(m)
	if err1 != nil || err2 != nil || !pm.IsRequest || !mm.IsRequest {
		return m
	}
	pv, e1 := pm.Vias()
	mv, e2 := mm.Vias()
	if e1 != nil || e2 != nil || len(pv) == 0 || len(mv) == 0 {
		return m
	}
	pb, ok1 := pv[0].Param("branch")
	mb, ok2 := mv[0].Param("branch")
	if !ok1 || !ok2 || len(pb.V) != len(mb.V) || len(pm.Method) != len(mm.Method) {
		return m // keep every length (Content-Length, cut positions) as it is
	}
	out := bytes.Replace(m, []byte("branch="+mb.V), []byte("branch="+pb.V), 1)
	out = bytes.Replace(out, []byte(mm.Method+" "), []byte(pm.Method+" "), 1)
	out = bytes.Replace(out, []byte(" "+mm.Method+"\r\n"), []byte(" "+pm.Method+"\r\n"), 1)
	out = bytes.Replace(out, []byte(" "+mm.Method+"\n"), []byte(" "+pm.Method+"\n"), 1)
	if _, _, err := sipwire.Parse(out); err != nil {
		return m
	}
	return out
}

func unsupportedTransportParam(route string) bool {
	l := strings.ToLower(route)
	return strings.Contains(l, "transport=tls") || strings.Contains(l, "transport=sctp")
}

func sortInts(a []int) {
	for i := 1; i < len(a); i++ {
		for j := i; j > 0 && a[j] < a[j-1]; j-- {
			a[j], a[j-1] = a[j-1], a[j]
		}
	}
}

func nearByte(g *gen, b []byte, c byte) int {
	start := g.intn(len(b))
	for i := start; i < len(b); i++ {
		if b[i] == c {
			return i - 1 + g.intn(3)
		}
	}
	return start
}

func genFramedMessage(g *gen, small bool, big bool) []byte {
	id := g.nextID()
	method := g.method()
	parts := &msgParts{Start: method + " sip:" + g.user0() + "@svc.example.com SIP/2.0"}
	parts.Via = []sipwire.Header{{Name: g.pick("Via", "v"), Value: viaEntry("TCP", "10.1.0.1", 5060, ";branch=z9hG4bK"+g.alnum(5, 10))}}
	parts.Core = []sipwire.Header{
		{Name: "From", Value: "<sip:a@caller.test>;tag=" + g.alnum(3, 8)},
		{Name: "To", Value: "<sip:b@svc.example.com>"},
		{Name: "Call-ID", Value: "cid-" + id},
		{Name: "CSeq", Value: strconv.Itoa(1+g.intn(999)) + " " + method},
		{Name: "X-Sim-Id", Value: id},
	}
	if small {
		parts.Ext = g.extHeaders(3, 30)
		if g.chance(50) {
			parts.Body = g.body(id, 40)
		}
	} else {
		maxVal := 20000
		parts.Ext = g.extHeaders(12, maxVal)
		if g.chance(35) {
			// a header line longer than the reader's window
			n := g.rng(4000, 20000)
			if g.chance(40) {
				n = 4096*g.rng(1, 4) - 20 + g.intn(40)
			}
			parts.Ext = append(parts.Ext, sipwire.Header{Name: "X-Long", Value: longValue(g, n)})
		}
		maxBody := 60000
		if !big {
			maxBody = 30000
		}
		parts.Body = g.body(id, maxBody)
	}
	parts.Shuffle = g.chance(30)
	if g.chance(25) {
		parts.EOL = "\n"
	}
	if g.chance(6) {
		// a message the proxy reads like any other and then has nowhere to send: its next hop asks for a transport
		// the proxy does not speak. Its neighbours in the stream must not notice.
		parts.Route = []sipwire.Header{{Name: "Route", Value: "<sip:10.3.0.1:5061;transport=" + g.pick("tls", "sctp", "TLS") + ";lr>"}}
	}
	if g.chance(25) {
		parts.CLName = g.pick("l", "L", "content-length", "CONTENT-LENGTH", "Content-length")
	}
	if g.chance(6) {
		parts.CLZeros = g.rng(1, 3)
	}
	data := g.assemble(parts)
	if !big && len(data) > 60000 {
		parts.Ext = parts.Ext[:len(parts.Ext)/3]
		parts.Body = parts.Body[:len(parts.Body)/3]
		data = g.assemble(parts)
	}
	return data
}

func longValue(g *gen, n int) string {
	b := make([]byte, n)
	// position-dependent content so that a misplaced fragment is visible
	for i := range b {
		b[i] = "0123456789abcdefghijklmnopqrstuvwxyz"[(i/7+i)%36]
	}
	return string(b)
}

func execFraming(t *testing.T, p *Plan) *Result {
	r := &Result{}
	w := runWorld(t, p, func(w *World) {
		st := newRelayState(w, &p.Cfg)
		l := p.Cfg.Listens[0]
		if p.Cfg.Knobs["answer"] == 1 {
			newDlgWorld(w, p) // binds the UDP backends; each answers 200 to what it receives
			w.stat("probe:answers-flow-back-over-the-stream-connection")
		}
		var slowest time.Duration
		for i := range p.Ops {
			op := &p.Ops[i]
			if op.Kind != "stream" {
				continue
			}
			if op.S["outbound"] == "1" {
				// open the way: a request with a Route to the TCP next hop
				b := &sipwire.Builder{Start: "OPTIONS sip:peer@far.test SIP/2.0"}
				b.Add("Via", "SIP/2.0/TCP 10.1.0.9:5060;branch=z9hG4bKopen"+strconv.Itoa(i))
				b.Add("Route", "<sip:10.3.0.1:5060;transport=tcp;lr>")
				b.Add("From", "<sip:a@x.test>;tag=1")
				b.Add("To", "<sip:peer@far.test>")
				b.Add("Call-ID", "open-"+strconv.Itoa(i))
				b.Add("CSeq", "1 OPTIONS")
				b.Add("X-Sim-Id", "open"+strconv.Itoa(i))
				oc, err := w.TCPConnTo("opener", "10.1.0.9", 0, hostPort(l.Addr, l.TCP))
				if err != nil {
					w.K.Failures = append(w.K.Failures, "harness: connect: "+err.Error())
					return
				}
				oc.Write(b.Bytes())
				w.K.Settle(5 * time.Second)
				var hop *simnet.TCPEnd
				for _, e := range w.N.Conns {
					if !e.Proxy && e.Peer.Proxy && e.Local.String() == "10.3.0.1:5060" && !e.Closed() {
						hop = e
					}
				}
				if hop == nil {
					w.stat("skipped:no-outbound-connection")
					op.S["outbound"] = "skipped"
					continue
				}
				hop.WriteCutsAndClose(op.Data, op.Cuts)
				w.stat("probe:stream-over-dialled-connection-closed-behind-last-byte")
				continue
			}
			c, err := w.TCPConnTo(op.Conn, op.SrcIP, 0, hostPort(l.Addr, l.TCP))
			if err != nil {
				w.K.Failures = append(w.K.Failures, "harness: connect: "+err.Error())
				return
			}
			if gap := time.Duration(op.I["gapMs"]) * time.Millisecond; gap > 0 {
				c.WriteCutsGap(op.Data, op.Cuts, gap)
				if total := gap * time.Duration(len(op.Cuts)+1); total > slowest {
					slowest = total
				}
				w.stat("probe:slow-sender")
			} else {
				c.WriteCuts(op.Data, op.Cuts)
			}
		}
		w.K.Settle(30*time.Second + slowest)
		if w.dead() {
			return
		}
		ems := w.decodeEmissions(0)
		for i := range p.Ops {
			op := &p.Ops[i]
			if op.Kind != "stream" || op.S["outbound"] == "skipped" {
				continue
			}
			// the messages of the stream, read by the harness's own reader
			var want []*sipwire.Msg
			rest := op.Data
			for len(rest) > 0 {
				allBlank := true
				for _, b := range rest {
					if b != '\r' && b != '\n' {
						allBlank = false
						break
					}
				}
				if allBlank {
					break
				}
				m, r2, err := sipwire.Parse(rest)
				if err != nil {
					w.K.Failures = append(w.K.Failures, "harness: generated stream does not parse: "+err.Error())
					return
				}
				rest = r2
				if rt := m.Get("route"); len(rt) > 0 && unsupportedTransportParam(rt[0]) {
					w.stat("probe:unroutable-message-inside-a-stream")
					continue // read, and relayed nowhere (judged by C03); what follows it is owed as usual
				}
				want = append(want, m)
			}
			ids := map[string]int{}
			for i, m := range want {
				ids[msgID(m)] = i
			}
			var got []*Emitted
			for _, e := range ems {
				if _, ok := ids[e.ID]; ok && e.ID != "" {
					got = append(got, e)
				}
			}
			longLine := false
			for _, ln := range strings.Split(string(op.Data), "\n") {
				if len(ln) > 4000 {
					longLine = true
				}
			}
			if longLine {
				w.stat("probe:line-longer-than-4096")
				if len(op.Cuts) > 0 {
					w.stat("probe:long-line-in-segmented-stream")
				}
			}
			w.Stats["judged:C11"]++
			sig := fmt.Sprintf("longline=%v", longLine)
			// undecodable / unattributable emissions
			for _, e := range ems {
				if e.Err != nil || e.ID == "" {
					key := fmt.Sprintf("unattrib-%d", e.E.Seq)
					if w.Stats[key] == 0 {
						w.Stats[key] = 1
						st.v("C11", "garbled-emission", "", sig, "emission #%d to %s is not a decodable copy of a message of any stream: %v\n%s", e.E.Seq, e.E.Dst, e.Err, clip(string(e.E.Data), 200))
					}
				}
			}
			if len(got) != len(want) {
				st.v("C11", "message-count", op.Conn, sig, "stream of %d messages (%d bytes, cuts %v) produced %d relayed messages", len(want), len(op.Data), clipInts(op.Cuts), len(got))
				continue
			}
			for i := range want {
				if got[i].ID != msgID(want[i]) {
					st.v("C11", "message-order", op.Conn, sig, "message %d of the stream is %s, relayed %s at that position", i, msgID(want[i]), got[i].ID)
					break
				}
				if got[i].M == nil {
					continue
				}
				before := len(w.Viol)
				st.judgeContent(&Op{ID: got[i].ID}, want[i], got[i].M)
				// re-tag content differences as C11 violations
				for j := before; j < len(w.Viol); j++ {
					if w.Viol[j].Prop == "C01" {
						w.Viol[j].Prop = "C11"
						w.Viol[j].Rule = "content:" + w.Viol[j].Rule
						w.Viol[j].Sig = sig + ";" + w.Viol[j].Sig
					}
				}
			}
		}
	})
	finish(w, p, r)
	r.Judged = w.Stats["judged:C11"]
	nc := 0
	tb := 0
	for _, op := range p.Ops {
		nc += len(op.Cuts)
		tb += len(op.Data)
	}
	r.Class = fmt.Sprintf("conns=%d/cuts=%d/short=%d/bytes=%d", len(p.Ops), nc, p.Cfg.Faults.ShortReadPct, tb/1000)
	if len(p.Ops) > 0 {
		op := p.Ops[0]
		s, _ := json.Marshal(map[string]interface{}{"connections": len(p.Ops), "first_stream_bytes": len(op.Data), "first_stream_messages": op.I["msgs"],
			"first_stream_cuts": clipInts(op.Cuts), "short_read_pct": p.Cfg.Faults.ShortReadPct, "first_stream_head": clip(string(op.Data), 160)})
		r.Sample = s
	}
	return r
}

func clipInts(a []int) []int {
	if len(a) > 16 {
		return a[:16]
	}
	return a
}

func init() {
	register("C11", genFramingPlan, execFraming)
}
