//go:build verif

package main

import (
	"fmt"
	"strconv"
	"strings"

	"verif/sim/simrt"
	"verif/sim/sipwire"
)

// Traffic generator shared by the worlds. Everything is drawn from the run's
// generation PRNG before the world starts; the result is stored in the plan.

type gen struct {
	r          *simrt.Rand
	tag        string
	n          int
	kfCross    bool
	prevCallID string
	tagPool    []string // user agents that use the same tag for every call (a tag is unique only within a Call-ID)
}

func newGen(seed uint64) *gen {
	g := &gen{r: &simrt.Rand{}}
	g.r.Seed(simrt.Mix(seed, 0x67656e))
	g.tag = fmt.Sprintf("%05x", seed&0xfffff)
	return g
}

func (g *gen) intn(n int) int           { return g.r.Intn(n) }
func (g *gen) chance(pct int) bool      { return g.r.Intn(100) < pct }
func (g *gen) pick(xs ...string) string { return xs[g.r.Intn(len(xs))] }
func (g *gen) rng(lo, hi int) int       { return lo + g.r.Intn(hi-lo+1) }

func (g *gen) nextID() string {
	g.n++
	return fmt.Sprintf("m%s-%d", g.tag, g.n)
}

const tokenChars = "abcdefghijklmnopqrstuvwxyzABCDEFGHIJKLMNOPQRSTUVWXYZ0123456789-.!%*_+`'~"

func (g *gen) token(lo, hi int) string {
	n := g.rng(lo, hi)
	b := make([]byte, n)
	for i := range b {
		b[i] = tokenChars[g.intn(len(tokenChars))]
	}
	return string(b)
}

func (g *gen) alnum(lo, hi int) string {
	n := g.rng(lo, hi)
	b := make([]byte, n)
	for i := range b {
		b[i] = tokenChars[g.intn(62)]
	}
	return string(b)
}

var methods = []string{"INVITE", "ACK", "BYE", "CANCEL", "OPTIONS", "REGISTER", "SUBSCRIBE", "NOTIFY", "INFO", "UPDATE", "MESSAGE", "PRACK", "REFER", "PUBLISH"}

func (g *gen) method() string {
	if g.chance(10) {
		return strings.ToUpper(g.alnum(3, 9))
	}
	return methods[g.intn(len(methods))]
}

// headerValue draws an extension header value: printable text with the
// characters the statement lists, optionally long, optionally non-UTF-8.
func (g *gen) headerValue(maxLen int) string {
	n := 0
	switch g.intn(10) {
	case 0:
		n = 0
	case 1, 2, 3, 4, 5:
		n = g.rng(1, 40)
	case 6, 7:
		n = g.rng(40, 300)
	case 8:
		n = g.rng(300, 5000)
	default:
		n = g.rng(1, maxLen)
	}
	if n > maxLen {
		n = maxLen
	}
	if n == 0 {
		return ""
	}
	b := make([]byte, n)
	special := []byte("%\";,<>=@:?&/\\'()[]{} \t")
	for i := range b {
		switch g.intn(12) {
		case 0:
			b[i] = special[g.intn(len(special))]
		case 1:
			b[i] = byte(0x80 + g.intn(0x80)) // non-ASCII, mostly invalid UTF-8
		case 2:
			b[i] = byte(1 + g.intn(31)) // control characters
			if b[i] == '\r' || b[i] == '\n' {
				b[i] = 0x01
			}
		default:
			b[i] = byte(0x21 + g.intn(0x5e))
		}
	}
	// first and last byte: visible ASCII (blanks around values are out of scope)
	b[0] = byte(0x21 + g.intn(0x5e))
	b[n-1] = byte(0x21 + g.intn(0x5e))
	return string(b)
}

var knownHeaderNames = []string{"Contact", "Max-Forwards", "User-Agent", "Allow", "Supported", "Content-Type", "Subject", "Event", "Expires-X", "Accept", "Authorization", "P-Asserted-Identity", "Session-Expires", "Min-SE", "Reason", "Date", "Server", "Organization", "Priority", "Warning", "Require", "Proxy-Require", "Allow-Events", "Refer-To", "Referred-By", "Accept-Contact", "Content-Encoding"}
var compactNames = []string{"m", "k", "c", "s", "o", "u", "r", "b", "a", "e"}

func respell(g *gen, name string) string {
	switch g.intn(5) {
	case 0:
		return strings.ToUpper(name)
	case 1:
		return strings.ToLower(name)
	case 2:
		b := []byte(name)
		for i := range b {
			if g.chance(50) {
				b[i] = strings.ToUpper(string(b[i]))[0]
			} else {
				b[i] = strings.ToLower(string(b[i]))[0]
			}
		}
		return string(b)
	}
	return name
}

func (g *gen) extName() string {
	switch g.intn(6) {
	case 0:
		return compactNames[g.intn(len(compactNames))]
	case 1:
		return "X-" + g.token(1, 12)
	case 2:
		return g.token(1, 20)
	default:
		return respell(g, knownHeaderNames[g.intn(len(knownHeaderNames))])
	}
}

// extHeaders draws 0..max extension headers (never a routing header, never
// Content-Length, From, To, Call-ID, CSeq, Expires or Subscription-State).
func (g *gen) extHeaders(max int, maxVal int) []sipwire.Header {
	n := 0
	switch g.intn(4) {
	case 0:
		n = g.rng(0, 2)
	case 1, 2:
		n = g.rng(0, 8)
	default:
		n = g.rng(0, max)
	}
	var out []sipwire.Header
	var prev string
	for i := 0; i < n; i++ {
		name := g.extName()
		if i > 0 && g.chance(15) {
			name = prev // repeated names
		}
		if reservedHeader(name) {
			name = "X-" + name
		}
		prev = name
		out = append(out, sipwire.Header{Name: name, Value: g.headerValue(maxVal)})
	}
	return out
}

func reservedHeader(name string) bool {
	switch sipwire.Canon(name) {
	case "via", "route", "record-route", "content-length", "from", "to", "call-id", "cseq", "expires", "subscription-state", simIDHeader:
		return true
	}
	return false
}

// body draws 0..max arbitrary bytes that carry the message id as a marker.
func (g *gen) body(id string, max int) []byte {
	n := 0
	switch g.intn(8) {
	case 0, 1, 2:
		n = 0
	case 3, 4:
		n = g.rng(1, 200)
	case 5:
		n = g.rng(200, 4000)
	case 6:
		n = g.rng(4000, 20000)
	default:
		n = g.rng(1, max)
	}
	if n > max {
		n = max
	}
	if n == 0 {
		return nil
	}
	b := make([]byte, n)
	mode := g.intn(3)
	marker := []byte("<" + id + ">")
	for i := range b {
		switch mode {
		case 0: // arbitrary bytes
			b[i] = byte(g.r.Uint64())
		case 1: // looks like SIP text
			const sipish = "INVITE sip:x@y SIP/2.0\r\nVia: SIP/2.0/UDP h\r\nContent-Length: 5\r\n\r\n"
			b[i] = sipish[i%len(sipish)]
		default:
			b[i] = marker[i%len(marker)]
		}
	}
	if n >= len(marker) {
		copy(b, marker)
		copy(b[n-len(marker):], marker)
	}
	return b
}

// ---- URIs, name-addrs ----

func (g *gen) user() string {
	const chars = "abcdefghijklmnopqrstuvwxyz0123456789-_.!~*'()&=+$,%"
	n := g.rng(1, 10)
	b := make([]byte, n)
	for i := range b {
		b[i] = chars[g.intn(len(chars))]
	}
	return string(b)
}

// uriParams draws URI parameters; valueless ones and '%' included.
func (g *gen) uriParams(max int, allowValueless bool) string {
	n := g.intn(max + 1)
	s := ""
	for i := 0; i < n; i++ {
		switch {
		case g.chance(15):
			s += ";lr"
		case allowValueless && g.chance(20):
			s += ";" + g.alnum(1, 6)
		default:
			v := g.alnum(1, 8)
			if g.chance(15) {
				v += "%" + g.pick("20", "41", "7e") + g.alnum(0, 3)
			}
			s += ";" + g.pick("user", "ttl", "maddr", "method", "x-"+g.alnum(1, 4)) + "=" + v
		}
	}
	return s
}

func (g *gen) displayName() string { return g.displayNameOf(true) }

// displayNameOf: with quotedSeparators, quoted display names may contain what separates or brackets things outside
// quotes (From / To; the entries of Route and Record-Route lists stay free of them: domain restriction, DESIGN 2.7)
func (g *gen) displayNameOf(quotedSeparators bool) string {
	if quotedSeparators && g.chance(12) {
		// quoted strings protect what they contain: separators, brackets, things that look like parameters
		return g.pick("\"Smith, John\" ", "\"a;tag=zz9\" ", "\"x <sip:y@z>\" ", "\"q\\\"uote\" ", "\"semi;colon\"")
	}
	if !quotedSeparators && g.chance(8) {
		return g.pick("\"rack 19\\\" gw\" ", "\"50%off line\" ", "\"a\\\\\" ") // escaped quote, per cent sign, escaped backslash
	}
	switch g.intn(5) {
	case 0:
		return ""
	case 1:
		return g.alnum(1, 8) + " "
	case 2:
		return "\"" + g.alnum(1, 6) + " " + g.alnum(1, 6) + "\" "
	case 3:
		return "\"" + g.alnum(1, 4) + "%" + g.alnum(1, 4) + "\" "
	default:
		return "\"" + g.alnum(1, 10) + "\""
	}
}

// fromTo draws a From/To value for uri. tag "" = no tag.
func (g *gen) fromTo(uri string, tag string, decorate bool) string {
	var s string
	if !strings.ContainsAny(uri, ";?,") && g.chance(12) {
		s = uri // the addr-spec form: no brackets (legal when the URI has no ';', '?' or ',')
	} else if decorate && g.chance(70) || strings.ContainsAny(uri, ";?,") {
		s = g.displayName() + "<" + uri + ">"
	} else if decorate {
		s = "<" + uri + ">"
	} else {
		s = "<" + uri + ">"
	}
	if tag != "" {
		s += ";tag=" + tag
	}
	if decorate && g.chance(30) {
		s += ";" + g.alnum(1, 5) + "=" + g.paramValue()
		if g.chance(30) && !strings.HasSuffix(s, "\"") {
			s += "%" + g.alnum(1, 3)
		}
	}
	if decorate && g.chance(10) {
		s += ";" + g.alnum(1, 5)
	}
	if decorate && g.chance(6) {
		n := "x-" + g.alnum(1, 3)
		s += ";" + n + "=" + g.alnum(1, 3) + ";" + n + "=" + g.alnum(1, 3) // the same parameter name twice
	}
	if decorate && g.chance(6) && (strings.Contains(s, ">;") || !strings.Contains(s, ">") && strings.Contains(s, ";")) {
		// blanks around a ';' between two parameters (what stands between the address and the first parameter is
		// not part of any value)
		s += g.pick("; ", " ;", " ; ") + g.alnum(1, 4) + "=" + g.alnum(1, 4)
	}
	return s
}

// paramValue draws the value of a generic parameter: a token; now and then a quoted string or a padded base64 text, both
// with '=' inside (the parameter ends at the next ';', its name at the FIRST '=').
func (g *gen) paramValue() string {
	switch g.intn(10) {
	case 0:
		return "\"" + g.alnum(1, 4) + "=" + g.alnum(1, 4) + "\""
	case 1:
		return g.alnum(2, 8) + g.pick("=", "==")
	case 2:
		return g.alnum(1, 4) + "%" + g.pick("41x", "d", "s", "", "20") + g.alnum(0, 3) // '%' is a token character
	}
	return g.alnum(1, 6)
}

// reason draws a reason phrase; some repeat text that occurs earlier in the status line.
func (g *gen) reason(status int) string {
	switch g.intn(14) {
	case 0:
		return "SIP Version Not Supported"
	case 1:
		return "IP Address Not Allowed"
	case 2:
		return strconv.Itoa(status/100) + " Devices Unreachable"
	case 3:
		return strconv.Itoa(status)
	case 4:
		return "2.0 Is All We Speak"
	case 5:
		return "R\xc3\xa9ponse 100% d'accord"
	case 6:
		return "SIP/2.0 " + strconv.Itoa(status) + " Again"
	}
	return g.pick("OK", "Ringing", "Not Found", "Busy Here", "Session Progress", "Whatever it is")
}

// cseqSep: what stands between the sequence number and the method (LWS: one blank, now and then more or a tab)
func (g *gen) cseqSep() string {
	if g.chance(6) {
		return g.pick("  ", "\t", " \t ")
	}
	return " "
}

func (g *gen) tagValue() string {
	t := g.alnum(3, 10)
	if g.chance(25) {
		t += "-" + g.alnum(1, 5)
	}
	return t
}

// viaEntry renders one Via entry.
func viaEntry(transport, host string, port int, params string) string {
	s := "SIP/2.0/" + transport + " " + host
	if port != 0 {
		s += fmt.Sprintf(":%d", port)
	}
	return s + params
}

// viaEntryZ: as viaEntry, the port written with a leading zero (port = 1*DIGIT: still decimal)
func viaEntryZ(transport, host string, port int, params string) string {
	if port == 0 {
		return viaEntry(transport, host, port, params)
	}
	return "SIP/2.0/" + transport + " " + host + fmt.Sprintf(":0%d", port) + params
}

// layoutList distributes list entries over header lines: each line holds one
// or several comma-separated entries; names are drawn from names.
func (g *gen) layoutList(entries []string, names []string, mode int) []sipwire.Header {
	var out []sipwire.Header
	i := 0
	for i < len(entries) {
		k := 1
		switch mode {
		case 0: // one per line
		case 1: // all in one
			k = len(entries) - i
		default:
			k = g.rng(1, len(entries)-i)
		}
		sep := ","
		if g.chance(30) {
			sep = g.pick(", ", ", ", " , ", " ,", ",  ") // commas of a list may have blanks on either side
		}
		out = append(out, sipwire.Header{Name: names[g.intn(len(names))], Value: strings.Join(entries[i:i+k], sep)})
		i += k
	}
	return out
}

// assemble builds a message from parts placing the header groups in a drawn
// order (Via headers are not necessarily first).
type msgParts struct {
	Start   string
	Via     []sipwire.Header
	Route   []sipwire.Header
	RR      []sipwire.Header
	Core    []sipwire.Header // From, To, Call-ID, CSeq, X-Sim-Id, Expires...
	Ext     []sipwire.Header
	Body    []byte
	CLName  string
	CLZeros int
	EOL     string
	Shuffle bool
}

func (g *gen) assemble(p *msgParts) []byte {
	b := &sipwire.Builder{Start: p.Start, Body: p.Body, CLName: p.CLName, CLZeros: p.CLZeros, EOL: p.EOL}
	groups := [][]sipwire.Header{p.Via, p.Route, p.RR, p.Core}
	if p.Shuffle {
		// keep each group's internal order, interleave groups and ext headers
		var all []sipwire.Header
		idx := make([]int, len(groups)+1)
		src := append(groups, p.Ext)
		remaining := 0
		for _, s := range src {
			remaining += len(s)
		}
		for remaining > 0 {
			k := g.intn(len(src))
			if idx[k] >= len(src[k]) {
				continue
			}
			all = append(all, src[k][idx[k]])
			idx[k]++
			remaining--
		}
		b.Headers = all
	} else {
		for _, grp := range groups {
			b.Headers = append(b.Headers, grp...)
		}
		b.Headers = append(b.Headers, p.Ext...)
	}
	if g.chance(30) && len(b.Headers) > 0 {
		b.CLAt = 1 + g.intn(len(b.Headers)) // Content-Length need not be the last header field
	}
	if g.chance(25) {
		// blanks around values: none or several after the colon, some behind the value (values count modulo these)
		b.Seps = map[int]string{}
		b.Headers = append([]sipwire.Header(nil), b.Headers...)
		for i := -1; i < len(b.Headers); i++ {
			if g.chance(15) {
				b.Seps[i] = g.pick(":", ":  ", ":\t", ": \t ")
			}
			if i >= 0 && g.chance(6) {
				b.Headers[i].Value += g.pick(" ", "\t", "  ")
			}
		}
	}
	return b.Bytes()
}
