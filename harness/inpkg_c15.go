//go:build verif

package main

// Optional in-package part of C15 (purge and re-establishment variants): a copy of startProxy's body that keeps the
// Proxy objects, and read access to the pin table. It depends on internal signatures and field names of the tree
// (NewProxy, NewProxyItem, DialogBasedBackend.backends / nextCleanTime, ExpireBackend.expire). build.sh leaves this
// file out when it does not compile against the tree under test; C15 then runs without these two variants and every
// other check is unaffected.

import "time"

func init() {
	startProxyKeepFn = startProxyKeep
	c15NextClean = func(px *Proxy) time.Time { return px.dialogBasedBackends.nextCleanTime }
	c15Table = func(px *Proxy) []c15Entry {
		var out []c15Entry
		for key, e := range px.dialogBasedBackends.backends {
			out = append(out, c15Entry{key, e.expire})
		}
		return out
	}
}

// startProxyKeep is startProxy's body, keeping the Proxy objects.
func startProxyKeep(config ProxyConfig, preConfigRoute *PreConfigRoute, resolver *PreConfigHostResolver, keep *[]*Proxy) error {
	selfLearnRoute := NewSelfLearnRoute()
	dialogTimeout := config.DialogTimeout
	if dialogTimeout <= 0 {
		dialogTimeout = getDefaultDialogTimeout()
	}
	var proxies []*Proxy
	for _, listen := range config.Listens {
		proxy := NewProxy(config.Name, int64(dialogTimeout), listen.Address, toKeepNextHopRoute(config.KeepNextHopRoute),
			preConfigRoute, resolver, selfLearnRoute, !listen.NoReceived, listen.MustRecordRoute)
		item, err := NewProxyItem(listen.Address, listen.UDPPort, listen.TCPPort, listen.BackendLocalAdress, listen.BackendLocalPort,
			listen.Backends, listen.Dests, !listen.NoReceived, listen.defRoute, proxy, selfLearnRoute, proxy)
		if err != nil {
			return err
		}
		proxy.AddItem(item)
		proxies = append(proxies, proxy)
	}
	for _, proxy := range proxies {
		if err := proxy.Start(); err != nil {
			return err
		}
	}
	*keep = append(*keep, proxies...)
	return nil
}

