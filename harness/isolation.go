//go:build verif

package main

import (
	"sort"
	"bytes"
	"encoding/json"
	"fmt"
	"regexp"
	"strconv"
	"strings"
	"testing"
	"time"

	"verif/sim/simrt"
	"verif/sim/sipwire"
)

// C10: a UDP datagram is processed in isolation from every other datagram.
// Sequences of 5-200 datagrams (20 B - 60 KiB) arrive back-to-back - the
// arrivals of a burst are simultaneous, so the receive goroutine, the parse
// goroutine and the message loop interleave under the seeded scheduler and
// receive buffers are recycled in every order. Each datagram is intact, cut at
// a drawn offset, or declares a Content-Length larger / smaller than the body
// it carries. Every datagram is built from its own marker.

var markerRe = regexp.MustCompile(`<<(m[0-9a-f]+-[0-9]+)>>`)

func genIsolationPlan(seed uint64, tier string) *Plan {
	g := newGen(seed)
	p := &Plan{}
	switch g.intn(5) {
	case 0:
		p.Sched = simrt.SchedStarve
		p.StarveName = "startParseMessage"
		p.StarveSteps = uint64(50 + g.intn(400))
	case 1:
		p.Sched = simrt.SchedStarve
		p.StarveName = "receiveMessage"
		p.StarveSteps = uint64(50 + g.intn(400))
	case 2:
		p.Sched = simrt.SchedPCT
		p.PCTDepth = 1 + g.intn(3)
	default:
		p.Sched = g.intn(2)
	}
	c := &p.Cfg
	c.Name = "svc.example.com"
	nl := 1 + g.intn(2)
	for i := 0; i < nl; i++ {
		l := ListenCfg{Addr: fmt.Sprintf("10.0.0.%d", i+1), UDP: 5060}
		for b := 0; b < 1+g.intn(3); b++ {
			l.Backends = append(l.Backends, fmt.Sprintf("udp://10.2.%d.%d:5070", i, b+1))
		}
		c.Listens = append(c.Listens, l)
	}
	congested := g.chance(12)
	if congested {
		// congestion: the backends are reached over TCP and one of them stops reading for a few seconds while a large
		// burst arrives; the proxy's own queues are small in this world (their capacities are divided, rule R7), so
		// they fill up. Whatever the proxy does with datagrams it cannot take then, it must not mix them up.
		for i := range c.Listens {
			for b := range c.Listens[i].Backends {
				addr := c.Listens[i].Backends[b][6:]
				c.Listens[i].Backends[b] = "tcp://" + addr
				c.TCPSinks = append(c.TCPSinks, addr)
			}
		}
		c.Knobs = map[string]int{"chanCapDiv": 100000, "stallAtUs": 3000 + g.intn(3000), "stallMs": g.pick2(2000, 5000), "maxSteps": 2000000}
		p.Variant = "congested"
	}
	if !congested && g.chance(15) {
		// a slow node: every queue hand-over inside the proxy (parser, message loop) takes a while, so the receive
		// goroutine runs ahead of them, datagrams that arrive at different instants are in the proxy together and
		// receive buffers are recycled while earlier datagrams are still queued
		c.Knobs = map[string]int{"recvCostUs": g.pick2(50, 200, 1000)}
		p.Variant = "slow-node"
	}
	c.Faults.MinLat = 50 * time.Microsecond
	c.Faults.MaxLat = 500 * time.Microsecond
	// now and then the proxy's own datagram write fails (ENOBUFS): that relay is lost, nothing of it may linger
	c.Faults.UDPWriteErrPct = g.pick2(0, 0, 3, 10)
	n := g.rng(5, 30)
	if g.chance(15) {
		n = g.rng(30, 200)
	}
	if congested {
		n = g.rng(60, 200)
	}
	nsrc := 1 + g.intn(4)
	lastBig := false
	for i := 0; i < n; i++ {
		id := g.nextID()
		size := 0
		switch g.intn(6) {
		case 0:
			size = g.pick2(0, 0, g.rng(0, 40)) // often no body at all
		case 1, 2:
			size = g.rng(40, 800)
		case 3:
			size = g.rng(800, 8000)
		default:
			size = g.rng(8000, 58000)
		}
		if lastBig && g.chance(60) {
			size = g.rng(0, 300) // large-then-small leaves foreign bytes behind the end of the short one
		}
		lastBig = size > 4000
		data, hdrEnd := isolationDatagram(g, id, size)
		op := Op{Kind: "dgram", ID: id, Listen: g.intn(nl), SrcIP: topo.uas[g.intn(nsrc)], SrcPort: 5060 + g.intn(3), Data: data,
			S: map[string]string{"shape": "intact"}, I: map[string]int{}}
		bodyLen := len(data) - hdrEnd
		switch g.intn(10) {
		case 0, 1: // cut at a drawn offset
			var cut int
			switch g.intn(4) {
			case 0:
				cut = 1 + g.intn(20) // inside the start line
			case 1:
				cut = 1 + g.intn(hdrEnd-1) // inside a header
			case 2:
				cut = hdrEnd - 1 - g.intn(3) // just before the blank line ends
			default:
				if bodyLen > 0 && g.chance(25) {
					cut = len(data) - 1 // exactly the last byte of the body is missing
				} else if bodyLen > 1 {
					cut = hdrEnd + g.intn(bodyLen-1) + 0 // inside the body
					if cut == hdrEnd && g.chance(50) {
						cut++
					}
				} else {
					cut = 1 + g.intn(hdrEnd-1)
				}
			}
			if cut < hdrEnd {
				op.S["shape"] = "cut-in-headers"
			} else {
				op.S["shape"] = "cut-in-body"
			}
			if cut >= len(data) {
				cut = len(data) - 1
			}
			op.Data = data[:cut]
		case 2: // declares more than it carries
			extra := g.pick2(1, 2, 10, 100, 4000, 60000)
			op.Data = rewriteCL(data, hdrEnd, bodyLen+extra)
			op.S["shape"] = "over-declared"
		case 3: // declares less than it carries
			if bodyLen > 0 {
				op.Data = rewriteCL(data, hdrEnd, g.intn(bodyLen))
				op.S["shape"] = "under-declared"
			}
		case 4:
			if g.chance(40) {
				// a NAT keep-alive: nothing but CRLF (it ends before any header section: discarded)
				op.Data = []byte(g.pick("\r\n\r\n", "\r\n", "\n", " \r\n", "")) // "": a datagram without payload
				op.S["shape"] = "cut-in-headers"
				op.S["keepalive"] = "1"
			}
		}
		if op.S["keepalive"] == "" && g.chance(8) {
			// blank lines ahead of the message inside the datagram (RFC 3261 7.5: ignored)
			op.Data = append([]byte(g.pick("\r\n", "\r\n\r\n", "\n", "\r\n\r\n\r\n")), op.Data...)
			op.S["leadingBlank"] = "1"
		}
		// most arrivals are simultaneous bursts
		if g.chance(75) && i > 0 {
			op.DelayUs = 0
		} else {
			op.DelayUs = int64(200 + g.intn(2000))
			if i > 3 && g.chance(8) {
				// a quiet half minute (or several) between two bursts: whatever the proxy does with its buffers while
				// idle must not show in what follows
				op.DelayUs = int64(g.pick2(31, 45, 125)) * 1000000
			}
		}
		p.Ops = append(p.Ops, op)
	}
	return p
}

// isolationDatagram builds a request to the service whose every part carries
// the marker <<id>>; it returns the datagram and the length of the header section.
func isolationDatagram(g *gen, id string, size int) ([]byte, int) {
	mark := "<<" + id + ">>"
	b := &sipwire.Builder{Start: g.pick("MESSAGE", "OPTIONS", "INFO", "NOTIFY") + " sip:u@svc.example.com SIP/2.0"}
	b.Add("Via", "SIP/2.0/UDP 10.1.0.1:5060;branch=z9hG4bK"+strings.ReplaceAll(id, "-", ""))
	b.Add("From", "<sip:a@caller.test>;tag=f"+strings.ReplaceAll(id, "-", ""))
	b.Add("To", "<sip:u@svc.example.com>")
	b.Add("Call-ID", mark)
	b.Add("CSeq", "1 "+strings.Fields(b.Start)[0])
	b.Add("X-Sim-Id", id)
	nh := g.intn(6)
	for i := 0; i < nh; i++ {
		b.Add("X-Mark-"+strconv.Itoa(i), strings.Repeat(mark, 1+g.intn(6)))
	}
	body := bytes.Repeat([]byte(mark), size/len(mark)+1)[:size]
	if g.chance(20) && size > 100 {
		// a body that looks like a SIP message of its own
		fake := "\r\n\r\nBYE sip:x@svc.example.com SIP/2.0\r\nVia: SIP/2.0/UDP 10.9.9.9;branch=z9hG4bKfake\r\nX-Sim-Id: " + id + "\r\nContent-Length: 0\r\n\r\n"
		copy(body[size/2:], fake)
	}
	b.Body = body
	if g.chance(8) {
		b.CLZeros = g.rng(1, 2) // 1*DIGIT: leading zeros are legal and the number stays decimal
	}
	data := b.Bytes()
	return data, len(data) - len(body)
}

func rewriteCL(data []byte, hdrEnd int, n int) []byte {
	head := string(data[:hdrEnd])
	i := strings.LastIndex(head, "Content-Length: ")
	j := strings.Index(head[i:], "\r\n")
	head = head[:i] + "Content-Length: " + strconv.Itoa(n) + head[i+j:]
	return append([]byte(head), data[hdrEnd:]...)
}

func execIsolation(t *testing.T, p *Plan) *Result {
	r := &Result{}
	var soloOp *Op
	var soloEmission []byte
	w := runWorld(t, p, func(w *World) {
		st := newRelayState(w, &p.Cfg)
		at := time.Duration(0)
		for i := range p.Ops {
			op := &p.Ops[i]
			at += time.Duration(op.DelayUs) * time.Microsecond
			l := p.Cfg.Listens[op.Listen]
			w.N.InjectUDP(udpAddr(hostPort(op.SrcIP, op.SrcPort)), udpAddr(hostPort(l.Addr, l.UDP)), op.Data, at+100*time.Microsecond)
		}
		if us := p.Cfg.Knobs["stallAtUs"]; us > 0 {
			w.K.After(time.Duration(us)*time.Microsecond, "stall-backends", func() {
				var ids []int
				for id := range w.sinkEnds {
					ids = append(ids, id)
				}
				sort.Ints(ids)
				for _, id := range ids {
					if end := w.sinkEnds[id]; !end.Closed() && !end.IsReset() {
						end.Stall(time.Duration(p.Cfg.Knobs["stallMs"])*time.Millisecond, 0)
						w.stat("probe:backend-stalled-during-burst")
					}
				}
			})
		}
		w.K.Settle(time.Minute + at)
		if w.dead() {
			return
		}
		ems := w.decodeEmissions(0)
		byID := map[string][]*Emitted{}
		for _, e := range ems {
			byID[e.ID] = append(byID[e.ID], e)
		}
		v := func(rule, id, sig, format string, a ...interface{}) {
			w.Viol = append(w.Viol, Violation{Prop: "C10", Rule: rule, Msg: id, Sig: sig, Detail: fmt.Sprintf(format, a...)})
		}
		// (1) purity: an emission carries the marker of one datagram only
		for _, e := range ems {
			own := e.ID
			for _, m := range markerRe.FindAllSubmatch(e.E.Data, -1) {
				if string(m[1]) != own {
					v("foreign-bytes-in-emission", own, "", "emission #%d attributed to %s contains the marker of datagram %s\n%s", e.E.Seq, own, m[1], clip(string(e.E.Data), 400))
					break
				}
			}
			if e.Err != nil || e.ID == "" {
				v("garbled-emission", "", "", "emission #%d is not a decodable message of one datagram: %v\n%s", e.E.Seq, e.Err, clip(string(e.E.Data), 300))
			}
		}
		// relays lost to a failed write of the proxy are emissions too (marked): what it tried to send is held to the
		// same purity rule above and counts as the datagram's one relay
		w.Stats["relay-lost-to-write-error"] += len(w.N.FailedUDP)
		reused := 0
		prevLen := map[int]int{}
		for i := range p.Ops {
			op := &p.Ops[i]
			shape := op.S["shape"]
			w.Stats["judged:C10"]++
			w.stat("shape:" + shape)
			if pl, ok := prevLen[op.Listen]; ok && pl > len(op.Data) {
				reused++
			}
			prevLen[op.Listen] = len(op.Data)
			got := byID[op.ID]
			sig := "shape=" + shape
			switch shape {
			case "intact":
				if len(got) != 1 {
					v("intact-datagram-not-relayed-once", op.ID, sig, "intact datagram %s (%d bytes) produced %d emissions", op.ID, len(op.Data), len(got))
					continue
				}
				in, _, err := sipwire.Parse(op.Data)
				if err == nil && got[0].M != nil {
					before := len(w.Viol)
					st.judgeContent(op, in, got[0].M)
					for j := before; j < len(w.Viol); j++ {
						if w.Viol[j].Prop == "C01" {
							w.Viol[j].Prop = "C10"
							w.Viol[j].Rule = "content:" + w.Viol[j].Rule
						}
					}
				}
				if soloOp == nil || len(op.Data) < len(soloOp.Data) && i%3 == 0 {
					soloOp = op
					soloEmission = got[0].E.Data
				}
			case "cut-in-headers", "cut-in-body", "over-declared":
				if len(got) != 0 {
					v("incomplete-datagram-relayed", op.ID, sig, "datagram %s (%s, %d bytes carried) must be discarded, but %d emission(s) are attributed to it:\n%s", op.ID, shape, len(op.Data), len(got), clip(string(got[0].E.Data), 400))
				}
			case "under-declared":
				// what is relayed for it is not prescribed; it must not be relayed twice and must stay pure (rule 1)
				if len(got) > 1 {
					v("datagram-relayed-twice", op.ID, sig, "datagram %s produced %d emissions", op.ID, len(got))
				}
			}
		}
		w.Stats["probe:datagram-shorter-than-its-predecessor"] += reused
	})
	// (3) solo differential: the same datagram alone in a fresh world
	if soloOp != nil && len(w.Viol) == 0 && len(w.K.Failures) == 0 {
		q := *p
		q.Ops = []Op{*soloOp}
		q.Replay = true
		q.Tape = nil
		q.Cfg.Faults.UDPWriteErrPct = 0
		var alone []byte
		w2 := runWorld(t, &q, func(w2 *World) {
			l := q.Cfg.Listens[soloOp.Listen]
			w2.N.InjectUDP(udpAddr(hostPort(soloOp.SrcIP, soloOp.SrcPort)), udpAddr(hostPort(l.Addr, l.UDP)), soloOp.Data, 100*time.Microsecond)
			w2.K.Settle(time.Minute)
			for _, e := range w2.decodeEmissions(0) {
				if e.ID == soloOp.ID {
					alone = e.E.Data
				}
			}
		})
		w.Stats["judged:C10"]++
		w.Stats["solo-differentials"]++
		if len(w2.K.Failures) == 0 && !sameModuloBranch(alone, soloEmission) {
			w.Viol = append(w.Viol, Violation{Prop: "C10", Rule: "differs-from-solo-run", Msg: soloOp.ID,
				Detail: fmt.Sprintf("datagram %s relayed differently in company than alone:\nin company: %s\nalone:      %s", soloOp.ID, clip(string(soloEmission), 300), clip(string(alone), 300))})
		}
	}
	finish(w, p, r)
	r.Judged = w.Stats["judged:C10"]
	r.Class = fmt.Sprintf("L%d/n%d/sched%d/%s", len(p.Cfg.Listens), len(p.Ops), p.Sched, p.StarveName)
	shapes := map[string]int{}
	for _, op := range p.Ops {
		shapes[op.S["shape"]]++
	}
	s, _ := json.Marshal(map[string]interface{}{"datagrams": len(p.Ops), "shapes": shapes, "scheduling": map[string]interface{}{"strategy": p.Sched, "starve": p.StarveName, "steps": p.StarveSteps},
		"first_datagram": clip(string(p.Ops[0].Data), 200)})
	r.Sample = s
	return r
}

// sameModuloBranch compares two relayed messages ignoring the proxy's fresh branch.
func sameModuloBranch(a, b []byte) bool {
	if a == nil || b == nil {
		return a == nil && b == nil
	}
	re := regexp.MustCompile(`branch=z9hG4bK[0-9a-f]{12}`)
	return bytes.Equal(re.ReplaceAll(a, []byte("branch=X")), re.ReplaceAll(b, []byte("branch=X")))
}

func init() {
	register("C10", genIsolationPlan, execIsolation)
}
