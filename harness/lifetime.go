//go:build verif

package main

import (
	"net"
	"encoding/json"
	"fmt"
	"sort"
	"strconv"
	"strings"
	"testing"
	"time"

	"verif/sim/simnet"
	"verif/sim/sipwire"
)

// C15: dialog pins live exactly as long as promised and are forgotten on
// termination. The dialog world under the simulated clock. The clock makes
// the oracle exact: the kernel knows the simulated instant t0 at which the
// establishing response was handed to the proxy (time only advances at
// quiescence, so processing happens at t0), and the lifetime
// L = max(timeout, Expires). A probe processed before t0+L must reach the
// pinned backend, one processed after it must be load-balanced; the instant
// t0+L itself is a don't-care.

// borrowDepth > 0 while a plan is generated on behalf of another property's generator: no further borrowing then.
var borrowDepth int

func genLifetimePlan(seed uint64, tier string) *Plan {
	g := newGen(seed)
	if g.chance(4) {
		// pins made by the answers of TCP backends, probed well inside their lifetime (tcpsticky.go)
		return genTCPStickyPlan(seed, tier)
	}
	if g.chance(6) && borrowDepth == 0 {
		// the dialog worlds of C04 - many concurrent dialogs of both kinds, duplicates, reordering, several listen
		// entries - all inside the lifetime the establishing answers promise: every pin is honoured (C15's first clause)
		borrowDepth++
		p := genStickyPlan(seed, tier)
		borrowDepth--
		if p.Variant == "" {
			p.Variant = "sticky"
			return p
		}
	}
	p := &Plan{Sched: g.intn(3), PCTDepth: 1 + g.intn(2), MapPerm: g.chance(50)}
	c := genDialogCfg(g, 1, 2, 4)
	c.Faults = simnetNoFaults()
	timeout := g.pick2(1, 2, 5, 30, 120, 1200, 7200)
	switch g.intn(3) {
	case 0:
		c.DialogTimeout = timeout
	case 1:
		c.EnvDialogTO = strconv.Itoa(timeout)
	default:
		c.DialogTimeout = timeout
		c.EnvDialogTO = strconv.Itoa(timeout*3 + 7) // the YAML value wins
	}
	c.Knobs = map[string]int{"timeout": timeout, "stopResolver": 1}
	// now and then a datagram write of the proxy fails: that message is lost, the pins stay as they are
	c.Faults.UDPWriteErrPct = g.pick2(0, 0, 0, 4)
	p.Cfg = *c
	if g.chance(30) {
		p.Variant = "purge"
		p.Cfg.Faults.UDPWriteErrPct = 0 // the purge bound is stated in terms of traffic the proxy dispatched
		genPurgeOps(g, p, timeout)
		return p
	}
	nd := g.rng(1, 5)
	if g.chance(10) {
		nd = g.rng(5, 40)
	}
	T := time.Duration(timeout) * time.Second
	for i := 0; i < nd; i++ {
		id := fmt.Sprintf("d%s-%d", g.tag, i+1)
		dop := genDialogOp(g, &p.Cfg, i+1, "invite")
		dop.Sub = nil
		dop.ID = id
		dop.Kind = "pin"
		// Expires of the establishing response
		exp := -1
		switch g.intn(6) {
		case 0:
			exp = g.intn(timeout + 1) // smaller or equal
		case 1:
			exp = timeout + 1 + g.intn(3*timeout+5) // larger
		case 2:
			exp = 2147483647
		case 3:
			exp = 0
		}
		dop.I["expires"] = exp
		dop.I["reqExpires"] = g.pick2(-1, -1, 0, 3*timeout, 2147483647)
		if g.chance(25) {
			// a subscription: a backend subscribes at a user agent through the proxy; the agent's answer (200 or 202
			// Accepted, with or without Expires) establishes the pin
			dop.S["type"] = "subscribe"
			dop.I["subStatus"] = g.pick2(200, 200, 202)
			dop.I["prov"] = 0
		}
		p.Ops = append(p.Ops, dop)
		L := T
		if exp > timeout {
			L = time.Duration(exp) * time.Second
		}
		// probes around the lifetime (in chronological order)
		nprobe := g.rng(1, 4)
		first := len(p.Ops)
		for k := 0; k < nprobe; k++ {
			op := Op{Kind: "probe-at", ID: fmt.Sprintf("%s.p%d", id, k), S: map[string]string{"dialog": id}, I: map[string]int{}}
			switch g.intn(8) {
			case 0:
				op.Dur = -1 // 1 ns before the expiry instant
			case 1:
				op.Dur = 1 // 1 ns after
			case 2:
				op.Dur = 0 // exactly on it
			case 3:
				op.Dur = -int64(L) * int64(1+g.intn(98)) / 100 // well inside
			case 4:
				op.Dur = -int64(time.Duration(1+g.intn(999)) * time.Millisecond)
				if -op.Dur >= int64(L) {
					op.Dur = -int64(L) / 2
				}
			case 5:
				op.Dur = int64(time.Duration(1+g.intn(999)) * time.Millisecond)
			case 6:
				op.Dur = int64(L) * int64(1+g.intn(300)) / 100 // lifetimes later
			default:
				op.Dur = -int64(L) + int64(time.Duration(1+g.intn(500))*time.Millisecond) // right after establishment
				if op.Dur >= 0 {
					op.Dur = -int64(L) / 2
				}
			}
			if L > 400*24*time.Hour && op.Dur > 0 {
				op.Dur = int64(time.Duration(1+g.intn(1000)) * time.Second) // past a 68-year lifetime: still cheap
			}
			p.Ops = append(p.Ops, op)
		}
		probes := p.Ops[first:]
		for a := 1; a < len(probes); a++ {
			for b := a; b > 0 && probes[b].Dur < probes[b-1].Dur; b-- {
				probes[b], probes[b-1] = probes[b-1], probes[b]
			}
		}
		if g.chance(25) {
			// the call is modified mid-way: a re-INVITE, accepted or refused - refused, the call goes on as it was;
			// either way the answer carries the dialog and establishes the pin anew
			p.Ops = append(p.Ops, Op{Kind: "reinvite", ID: id + ".ri", S: map[string]string{"dialog": id}, I: map[string]int{"status": g.pick2(200, 488, 491, 603, 302), "expires": g.pick2(-1, -1, 0, 2*timeout)}})
			p.Ops = append(p.Ops, Op{Kind: "probe-now", ID: id + ".pr", S: map[string]string{"dialog": id}})
			if g.chance(60) {
				// the answer to the re-INVITE starts a new lifetime: probes around ITS end (past the first answer's)
				for k, dur := range []int64{-int64(T) / int64(2+g.intn(6)), int64(time.Duration(1+g.intn(900)) * time.Millisecond)} {
					p.Ops = append(p.Ops, Op{Kind: "probe-at", ID: fmt.Sprintf("%s.rq%d", id, k), S: map[string]string{"dialog": id}, I: map[string]int{}, Dur: dur})
				}
			}
		}
		if g.chance(40) {
			// terminate, then probe again
			top := Op{Kind: "terminate", ID: id + ".bye", S: map[string]string{"dialog": id, "how": g.pick("BYE", "BYE", "NOTIFY-terminated", "NOTIFY-active", "NOTIFY-terminated-reason")}, I: map[string]int{"status": g.pick2(200, 200, 481, 500, 603)}}
			if g.chance(30) {
				// the backend is slow to answer the BYE: the caller retransmits it before any answer was seen
				top.I["retransmitBeforeAnswer"] = 1 + g.intn(2)
			} else if g.chance(25) {
				// the backend answers the BYE from another source port than the one it is configured with (the answer is
				// attributed through the transaction all the same)
				top.I["answerFromOtherPort"] = 1
			}
			p.Ops = append(p.Ops, top)
			p.Ops = append(p.Ops, Op{Kind: "probe-now", ID: id + ".pt", S: map[string]string{"dialog": id}})
		}
		if g.chance(50) {
			p.Ops = append(p.Ops, Op{Kind: "traffic", ID: fmt.Sprintf("t%s-%d", g.tag, i), I: map[string]int{"n": 1 + g.intn(5)}})
		}
	}
	if g.chance(35) {
		// calls whose pins have run out are taken up again (re-INVITE) at the very instant other calls are established:
		// the new pins are made while a purge of the old ones is due
		aimed := g.chance(70)
		if aimed {
			p.Cfg.Faults.UDPWriteErrPct = 0 // exact instants
			// aimed at the purge instant: a call set up after a quiet period (its INVITE triggers a purge, so the next
			// one falls due exactly one dialog timeout later) is taken up again at that very instant
			p.Variant = "repin"
			p.Ops = append(p.Ops, Op{Kind: "quiet-until-purge-due", ID: "quiet"})
			dop := genDialogOp(g, &p.Cfg, nd+1, "invite")
			dop.Sub = nil
			dop.ID = fmt.Sprintf("d%s-race", g.tag)
			dop.Kind = "pin"
			dop.I["expires"] = g.pick2(-1, -1, 0)
			dop.I["reqExpires"] = -1
			dop.I["prov"] = 0
			p.Ops = append(p.Ops, dop)
		}
		p.Ops = append(p.Ops, Op{Kind: "repin-burst", ID: fmt.Sprintf("rb%s", g.tag), I: map[string]int{"fresh": g.rng(1, 4), "expires": g.pick2(-1, -1, 0, 3*timeout), "slowUs": g.pick2(350, 350, 301, 1000, 300)}})
	}
	return p
}

func genPurgeOps(g *gen, p *Plan, timeout int) {
	periods := g.rng(3, 20)
	n := 0
	for per := 0; per < periods; per++ {
		k := g.rng(1, 6)
		for i := 0; i < k; i++ {
			n++
			op := Op{Kind: "traffic", ID: fmt.Sprintf("t%s-%d", g.tag, n), I: map[string]int{"n": 1, "expires": -1}}
			switch g.intn(6) {
			case 0:
				op.I["expires"] = 2147483647
			case 1:
				op.I["expires"] = timeout * g.rng(2, 50)
			case 2:
				op.I["expires"] = g.intn(timeout + 1)
			}
			if g.chance(30) {
				op.Kind = "pin"
				dop := genDialogOp(g, &p.Cfg, n, "invite")
				dop.Sub = nil
				dop.Kind = "pin"
				dop.ID = fmt.Sprintf("d%s-%d", g.tag, n)
				dop.I["expires"] = op.I["expires"]
				dop.I["reqExpires"] = g.pick2(-1, -1, 2147483647)
				op = dop
			}
			p.Ops = append(p.Ops, op)
			p.Ops = append(p.Ops, Op{Kind: "advance", Dur: int64(time.Duration(timeout) * time.Second / time.Duration(k+1))})
		}
		p.Ops = append(p.Ops, Op{Kind: "check-table"})
	}
}

// in-package view of the pin table (set by the optional harness/inpkg_c15.go)
type c15Entry struct {
	key    string
	expire time.Time
}

var (
	c15NextClean func(px *Proxy) time.Time
	c15Table     func(px *Proxy) []c15Entry
)

type pinModel struct {
	backend    string
	t0         time.Duration
	life       time.Duration
	terminated bool
	dontcare   bool
	op         *Op
}

func execLifetime(t *testing.T, p *Plan) *Result {
	if p.Variant == "tcp-backends" {
		return execTCPSticky(t, p)
	}
	if p.Variant == "sticky" {
		q := *p
		q.Variant = ""
		r := execSticky(t, &q)
		if !p.Replay {
			p.Tape = q.Tape
		}
		for _, v := range append([]Violation(nil), r.Viol...) {
			if v.Prop == "C04" && v.Rule == "in-dialog-request-left-its-backend" && !strings.Contains(v.Sig, "crossListener=true") {
				v.Prop, v.Rule, v.Sig = "C15", "pin-not-honoured", "stickyWorld=true;"+v.Sig
				r.Viol = append(r.Viol, v)
			}
		}
		r.Judged = r.Stats["judged:C04"]
		return r
	}
	r := &Result{}
	timeout := time.Duration(p.Cfg.Knobs["timeout"]) * time.Second
	purge := p.Variant == "purge" || p.Variant == "repin"
	var keep []*Proxy
	body := func(w *World) {
		d := newDlgWorld(w, p)
		d.exact = true
		pins := map[string]*pinModel{}
		v := func(rule, id, sig, format string, a ...interface{}) {
			w.Viol = append(w.Viol, Violation{Prop: "C15", Rule: rule, Msg: id, Sig: sig, Detail: fmt.Sprintf(format, a...)})
			if p.Prop == "C04" && rule == "pin-not-honoured" {
				// borrowed by C04: a request of a live dialog that does not reach the backend that answered is what C04 is about
				w.Viol = append(w.Viol, Violation{Prop: "C04", Rule: "in-dialog-request-left-its-backend", Msg: id, Sig: "lifetimeWorld=true;" + sig, Detail: fmt.Sprintf(format, a...)})
			}
		}
		nb := len(p.Cfg.Listens[0].Backends)
		lastTraffic := w.K.Elapsed()
		maxGap := time.Duration(0)
		noteTraffic := func() {
			if g := w.K.Elapsed() - lastTraffic; g > maxGap {
				maxGap = g
			}
			lastTraffic = w.K.Elapsed()
		}
		// backends answer: INVITE with the scripted Expires, everything else with 200 / scripted status
		respExpires := map[string]int{}
		respStatus := map[string]int{}
		respDelayUs := map[string]int{}
		ringing := map[string]int{}
		noAnswer := map[string]bool{}
		d.respScript = func(party string, m *sipwire.Msg, id string) []respPlan {
			if noAnswer[id] {
				return nil
			}
			rp := respPlan{delay: 300 * time.Microsecond, status: 200, expires: -1}
			if us, ok := respDelayUs[id]; ok {
				rp.delay = time.Duration(us) * time.Microsecond
			}
			var out []respPlan
			if e, ok := respExpires[id]; ok {
				rp.expires = e
				rp.toTag = "tt" + strings.ReplaceAll(id, ".", "")
				switch ringing[id] {
				case 1: // a tagged 18x (an early dialog) precedes the answer that carries the Expires
					out = append(out, respPlan{delay: 200 * time.Microsecond, status: 180, toTag: rp.toTag, expires: -1})
				case 2:
					out = append(out, respPlan{delay: 200 * time.Microsecond, status: 183, toTag: rp.toTag, expires: 0})
				}
			}
			if s, ok := respStatus[id]; ok {
				rp.status = s
			}
			return append(out, rp)
		}
		// when the establishing response is handed to the proxy
		establishSub := func(op *Op) {
			ids := idsOf(op)
			// the user agent registers first, so that the proxy knows it (and answers of the agent return through the proxy)
			reg := dlgIDs{callID: "reg-" + op.ID, fromURI: ids.toURI, toURI: ids.toURI, fromTag: "r" + ids.toTag, ruri: ids.ruri, ua: ids.ua}
			d.sendRequest(ids.ua, op.Listen, reg.request(reqOpts{method: "REGISTER", cseq: 1, style: 0, noToTag: true, srcAddr: ids.ua, id: op.ID + ".reg"}), op.ID+".reg")
			noteTraffic()
			w.K.Settle(10 * time.Second)
			bs := d.reached[op.ID+".reg"]
			if len(bs) != 1 {
				w.stat("skipped:register-not-dispatched-once")
				return
			}
			backend := bs[0]
			reqID := op.ID + ".inv"
			respExpires[reqID] = op.I["expires"]
			respStatus[reqID] = op.I["subStatus"]
			ringing[reqID] = 0
			ua := udpAddr(ids.ua)
			sub := dlgIDs{callID: ids.callID, fromURI: ids.fromURI, toURI: ids.toURI, fromTag: ids.fromTag, ruri: "sip:" + ids.ua}
			extra := []sipwire.Header{{Name: "Route", Value: fmt.Sprintf("<sip:%s:%d;lr>", ua.IP, ua.Port)}, {Name: "Event", Value: "presence"}}
			if e := op.I["reqExpires"]; e >= 0 {
				extra = append(extra, sipwire.Header{Name: "Expires", Value: strconv.Itoa(e)})
			}
			data := sub.request(reqOpts{method: "SUBSCRIBE", cseq: 1, style: op.I["style"], noToTag: true, srcAddr: backend, id: reqID, extra: extra})
			d.sentAt[reqID] = w.K.Elapsed()
			d.send(d.bsock[backend], d.listenerAddr(op.Listen), data, 0)
			noteTraffic()
			w.K.Settle(10 * time.Second)
			if got := d.reached[reqID]; len(got) != 1 || got[0] != ids.ua {
				w.stat("skipped:subscribe-not-relayed-to-the-agent")
				return
			}
			var t0 time.Duration = -1
			for i := len(w.N.Events) - 1; i >= 0; i-- {
				if ev := w.N.Events[i]; ev.Kind == "udp-arrive" && ev.A == ids.ua {
					t0 = ev.At
					break
				}
			}
			if t0 < 0 {
				w.stat("skipped:no-establishing-response")
				return
			}
			life := timeout
			if e := op.I["expires"]; time.Duration(e)*time.Second > life {
				life = time.Duration(e) * time.Second
			}
			pins[op.ID] = &pinModel{backend: backend, t0: t0, life: life, op: op}
			w.stat("pins-established")
			w.stat(fmt.Sprintf("probe:subscription-pin-by-%d", op.I["subStatus"]))
		}
		establish := func(op *Op) {
			if op.S["type"] == "subscribe" {
				establishSub(op)
				return
			}
			ids := idsOf(op)
			reqID := op.ID + ".inv"
			respExpires[reqID] = op.I["expires"]
			ringing[reqID] = op.I["prov"] // 0: answered directly, 1/2: tagged 18x first
			var extra []sipwire.Header
			if e := op.I["reqExpires"]; e >= 0 {
				extra = append(extra, sipwire.Header{Name: "Expires", Value: strconv.Itoa(e)})
			}
			data := ids.request(reqOpts{method: "INVITE", cseq: 1, style: op.I["style"], noToTag: true, srcAddr: ids.ua, id: reqID, extra: extra})
			d.sendRequest(ids.ua, op.Listen, data, reqID)
			noteTraffic()
			w.K.Settle(10 * time.Second)
			bs := d.reached[reqID]
			if len(bs) != 1 {
				w.stat("skipped:invite-not-dispatched-once")
				return
			}
			// the backend answered 300us after it received the INVITE and the answer took
			// d.send's exact delay: find the arrival of the response at the proxy in the event log
			var t0 time.Duration = -1
			for i := len(w.N.Events) - 1; i >= 0; i-- {
				ev := w.N.Events[i]
				if ev.Kind == "udp-arrive" && ev.A == bs[0] {
					t0 = ev.At
					break
				}
			}
			if t0 < 0 {
				w.stat("skipped:no-establishing-response")
				return
			}
			life := timeout
			if e := op.I["expires"]; time.Duration(e)*time.Second > life {
				life = time.Duration(e) * time.Second
			}
			pins[op.ID] = &pinModel{backend: bs[0], t0: t0, life: life, op: op}
			w.stat("pins-established")
		}
		// probe: nb simultaneous in-dialog requests reveal whether the dialog is pinned
		probe := func(pm *pinModel, id string, arrive time.Duration) (atPinned int, total int) {
			ids := idsOf(pm.op)
			ids.toTag = "tt" + strings.ReplaceAll(pm.op.ID+".inv", ".", "")
			now := w.K.Elapsed()
			delay := arrive - now
			if delay < 50*time.Microsecond || arrive > 150*365*24*time.Hour {
				// in the past, or beyond what the clock's int64 nanoseconds can hold (year 2262)
				return -1, 0
			}
			var reqIDs []string
			for k := 0; k < nb; k++ {
				rid := fmt.Sprintf("%s.%d", id, k)
				reqIDs = append(reqIDs, rid)
				data := ids.request(reqOpts{method: "INFO", cseq: 20 + k, style: k, srcAddr: ids.ua, id: rid, rev: k%2 == 1})
				s := d.uaSocket(ids.ua)
				s.SendExact(d.listenerAddr(pm.op.Listen), data, delay)
			}
			w.K.Settle(delay + 10*time.Second)
			noteTraffic()
			for _, rid := range reqIDs {
				for _, b := range d.reached[rid] {
					total++
					if b == pm.backend {
						atPinned++
					}
				}
			}
			return atPinned, total
		}
		judgeProbe := func(pm *pinModel, id string, arrive time.Duration, at, total int) {
			if at < 0 || total != nb {
				w.stat("skipped:probe-not-possible")
				return
			}
			expiry := pm.t0 + pm.life
			w.Stats["judged:C15"]++
			rel := "before-expiry"
			switch {
			case pm.dontcare:
				w.stat("dontcare:terminated-with-reason")
				return
			case pm.terminated:
				rel = "after-termination"
			case arrive == expiry:
				w.stat("dontcare:probe-exactly-at-expiry-instant")
				return
			case arrive > expiry:
				rel = "after-expiry"
			}
			w.stat("probe:" + rel)
			if d := arrive - expiry; d == 1 || d == -1 {
				w.stat("probe:one-nanosecond-from-expiry")
			}
			sig := fmt.Sprintf("%s;expires=%s", rel, expiresClass(pm.op.I["expires"], int(timeout/time.Second)))
			if rel == "before-expiry" && at != nb {
				v("pin-not-honoured", id, sig, "dialog %s pinned to %s at t0=%v, lifetime %v (timeout %v, Expires %d): %d of %d probes processed at %v (%v before expiry) reached the pinned backend", pm.op.ID, pm.backend, pm.t0, pm.life, timeout, pm.op.I["expires"], at, nb, arrive, expiry-arrive)
			}
			if rel != "before-expiry" && at == nb && nb > 1 {
				v("pin-outlived-its-lifetime", id, sig, "dialog %s pinned to %s at t0=%v, lifetime %v (timeout %v, Expires %d), %s: all %d probes processed at %v (%v after expiry) still reached the pinned backend", pm.op.ID, pm.backend, pm.t0, pm.life, timeout, pm.op.I["expires"], rel, nb, arrive, arrive-expiry)
			}
		}
		for i := range p.Ops {
			op := &p.Ops[i]
			if w.dead() {
				return
			}
			switch op.Kind {
			case "pin":
				establish(op)
			case "probe-at":
				pm := pins[op.S["dialog"]]
				if pm == nil {
					continue
				}
				arrive := pm.t0 + pm.life + time.Duration(op.Dur)
				at, total := probe(pm, op.ID, arrive)
				judgeProbe(pm, op.ID, arrive, at, total)
			case "probe-now":
				pm := pins[op.S["dialog"]]
				if pm == nil {
					continue
				}
				arrive := w.K.Elapsed() + 200*time.Microsecond
				at, total := probe(pm, op.ID, arrive)
				judgeProbe(pm, op.ID, arrive, at, total)
			case "reinvite":
				pm := pins[op.S["dialog"]]
				if pm == nil || pm.terminated || pm.dontcare {
					continue
				}
				di := idsOf(pm.op)
				di.toTag = "tt" + strings.ReplaceAll(pm.op.ID+".inv", ".", "")
				respExpires[op.ID] = op.I["expires"]
				respStatus[op.ID] = op.I["status"]
				d.sendRequest(di.ua, pm.op.Listen, di.request(reqOpts{method: "INVITE", cseq: 40, style: 5, srcAddr: di.ua, id: op.ID}), op.ID)
				w.K.Settle(10 * time.Second)
				noteTraffic()
				bs := d.reached[op.ID]
				if len(bs) != 1 {
					pm.dontcare = true
					continue
				}
				var t0 time.Duration = -1
				for i := len(w.N.Events) - 1; i >= 0; i-- {
					if ev := w.N.Events[i]; ev.Kind == "udp-arrive" && ev.A == bs[0] {
						t0 = ev.At
						break
					}
				}
				if t0 < 0 {
					pm.dontcare = true
					continue
				}
				life := timeout
				if e := op.I["expires"]; time.Duration(e)*time.Second > life {
					life = time.Duration(e) * time.Second
				}
				pins[op.S["dialog"]] = &pinModel{backend: bs[0], t0: t0, life: life, op: pm.op}
				w.stat(fmt.Sprintf("re-invite-answered-%dxx", op.I["status"]/100))
			case "terminate":
				pm := pins[op.S["dialog"]]
				if pm == nil || w.K.Elapsed() >= pm.t0+pm.life {
					continue
				}
				ids := idsOf(pm.op)
				ids.toTag = "tt" + strings.ReplaceAll(pm.op.ID+".inv", ".", "")
				how := op.S["how"]
				o := reqOpts{cseq: 90, style: 3, srcAddr: ids.ua, id: op.ID}
				switch how {
				case "BYE":
					o.method = "BYE"
					respStatus[op.ID] = op.I["status"]
				case "NOTIFY-terminated":
					o.method = "NOTIFY"
					o.extra = []sipwire.Header{{Name: "Subscription-State", Value: "terminated"}}
				case "NOTIFY-active":
					o.method = "NOTIFY"
					o.extra = []sipwire.Header{{Name: "Subscription-State", Value: "active"}}
				default:
					o.method = "NOTIFY"
					o.extra = []sipwire.Header{{Name: "Subscription-State", Value: "terminated;reason=timeout"}}
				}
				if nrt := op.I["retransmitBeforeAnswer"]; nrt > 0 && how == "BYE" && w.K.Elapsed()+time.Duration(nrt)*500*time.Millisecond+time.Second < pm.t0+pm.life {
					// "dissolved early when the backend ANSWERS a BYE": until then the BYE's retransmissions belong to
					// the pinned backend like any request of the dialog. The backend answers 3 s late.
					respDelayUs[op.ID] = 3000000
					data := ids.request(o)
					d.sendRequest(ids.ua, pm.op.Listen, data, op.ID)
					for k := 0; k < nrt; k++ {
						w.K.Advance(500 * time.Millisecond)
						s := d.uaSocket(ids.ua)
						s.SendExact(d.listenerAddr(pm.op.Listen), data, 100*time.Microsecond)
					}
					w.K.Settle(10 * time.Second)
					noteTraffic()
					w.Stats["judged:C15"]++
					w.stat("probe:bye-retransmitted-before-its-answer")
					copies := d.reached[op.ID]
					if len(copies) == nrt+1 {
						for _, b := range copies {
							if b != pm.backend {
								v("pin-dissolved-before-the-bye-was-answered", op.ID, "", "dialog %s is pinned to %s; its BYE was sent %d times before the backend answered, the copies reached %v", pm.op.ID, pm.backend, nrt+1, copies)
								break
							}
						}
					}
					if len(copies) == 0 || copies[0] != pm.backend {
						pm.dontcare = true
						continue
					}
					pm.terminated = true
					w.stat("terminated:" + how)
					continue
				}
				if op.I["answerFromOtherPort"] == 1 && how == "BYE" {
					noAnswer[op.ID] = true
				}
				d.sendRequest(ids.ua, pm.op.Listen, ids.request(o), op.ID)
				w.K.Settle(10 * time.Second)
				noteTraffic()
				if noAnswer[op.ID] && len(d.reached[op.ID]) == 1 && d.reached[op.ID][0] == pm.backend {
					var relayed *Emitted
					for _, e := range w.decodeEmissions(0) {
						if e.ID == op.ID && e.M != nil && e.E.Err == "" {
							relayed = e
						}
					}
					if relayed != nil {
						if vias, err := relayed.M.Vias(); err == nil && len(vias) > 0 {
							resp := buildResponse(relayed.M, respPlan{status: op.I["status"], expires: -1}, op.ID)
							be := udpAddr(pm.backend)
							w.N.InjectUDP(&net.UDPAddr{IP: be.IP, Port: 5099}, udpAddr(hostPort(vias[0].Host, vias[0].EffPort())), resp, 300*time.Microsecond)
							w.K.Settle(10 * time.Second)
							w.stat("probe:bye-answered-from-another-port")
						}
					}
				}
				if len(d.reached[op.ID]) != 1 || d.reached[op.ID][0] != pm.backend {
					w.stat("skipped:terminating-request-not-at-pinned-backend")
					pm.dontcare = true
					continue
				}
				switch how {
				case "BYE", "NOTIFY-terminated":
					pm.terminated = true
				case "NOTIFY-terminated-reason":
					pm.dontcare = true
				}
				w.stat("terminated:" + how)
			case "traffic":
				for k := 0; k < op.I["n"]; k++ {
					id := fmt.Sprintf("%s.%d", op.ID, k)
					ruri := "sip:svc.example.com"
					if !strings.Contains(p.Cfg.Name, "svc.example.com") {
						ruri = "urn:service:sos"
					}
					ids := dlgIDs{callID: "plain-" + id, fromURI: "sip:x@caller.test", toURI: "sip:svc@svc.example.com", fromTag: "pt" + strings.ReplaceAll(id, ".", ""), ruri: ruri}
					var extra []sipwire.Header
					if e, ok := op.I["expires"]; ok && e >= 0 {
						extra = append(extra, sipwire.Header{Name: "Expires", Value: strconv.Itoa(e)})
					}
					data := ids.request(reqOpts{method: "OPTIONS", cseq: 1, style: k, noToTag: true, srcAddr: "10.1.0.1:5060", id: id, extra: extra})
					d.sendRequest("10.1.0.1:5060", 0, data, id)
				}
				w.K.Settle(10 * time.Second)
				dispatched := false
				for k := 0; k < op.I["n"]; k++ {
					if len(d.reached[fmt.Sprintf("%s.%d", op.ID, k)]) > 0 {
						dispatched = true
					}
				}
				if dispatched {
					noteTraffic() // only traffic the proxy actually dispatched keeps its tables moving
				} else {
					w.stat("skipped:traffic-not-dispatched")
				}
			case "quiet-until-purge-due":
				if len(keep) > 0 {
					if dd := c15NextClean(keep[0]).Sub(w.K.Now()); dd > -time.Hour && dd < 24*time.Hour {
						if dd+time.Second > 0 {
							w.K.Advance(dd + time.Second)
						}
					}
				}
			case "repin-burst":
				// pins that have run out (or will within a day), not terminated
				var olds []*pinModel
				var ids []string
				for id := range pins {
					ids = append(ids, id)
				}
				sort.Strings(ids)
				latest := w.K.Elapsed()
				for _, id := range ids {
					pm := pins[id]
					if pm.terminated || pm.dontcare || pm.life > 24*time.Hour {
						continue
					}
					olds = append(olds, pm)
					if e := pm.t0 + pm.life; e > latest {
						latest = e
					}
				}
				if len(olds) == 0 {
					continue
				}
				if wait := latest + time.Second - w.K.Elapsed(); wait > 0 && len(keep) == 0 {
					w.K.Advance(wait)
				}
				// one instant: a re-INVITE for every old call and some new calls
				delay := 500 * time.Microsecond
				if len(keep) > 0 {
					// aimed (in-package view of the table's next purge instant, used to time the workload only): the
					// requests reach the proxy at the very instant the purge falls due (not yet due: strictly later
					// counts), their answers a little later, all at one instant: the first answer triggers the purge,
					// the others re-establish pins that ran out in between
					dd := c15NextClean(keep[0]).Sub(w.K.Now())
					if dd > 50*time.Microsecond && dd < 24*time.Hour {
						delay = dd
						w.stat("probe:burst-aimed-at-the-purge-instant")
					}
				}
				type rp struct {
					pm  *pinModel
					rid string
				}
				var reps []rp
				for k, pm := range olds {
					di := idsOf(pm.op)
					di.toTag = "tt" + strings.ReplaceAll(pm.op.ID+".inv", ".", "")
					rid := fmt.Sprintf("%s.re%d", op.ID, k)
					respExpires[rid] = op.I["expires"]
					if op.I["slowUs"] > 0 {
						respDelayUs[rid] = op.I["slowUs"]
					}
					data := di.request(reqOpts{method: "INVITE", cseq: 50, style: k, srcAddr: di.ua, id: rid})
					d.uaSocket(di.ua).SendExact(d.listenerAddr(pm.op.Listen), data, delay)
					reps = append(reps, rp{pm, rid})
				}
				for k := 0; k < op.I["fresh"]; k++ {
					fid := fmt.Sprintf("%s.new%d", op.ID, k)
					respExpires[fid] = -1
					if op.I["slowUs"] > 0 {
						respDelayUs[fid] = op.I["slowUs"]
					}
					di := dlgIDs{callID: "fresh-" + fid, fromURI: "sip:n@caller.test", toURI: "sip:svc@svc.example.com", fromTag: "nf" + strings.ReplaceAll(fid, ".", ""), ruri: idsOf(olds[0].op).ruri, ua: "10.1.0.9:5060"}
					data := di.request(reqOpts{method: "INVITE", cseq: 1, style: k, noToTag: true, srcAddr: di.ua, id: fid})
					d.uaSocket(di.ua).SendExact(d.listenerAddr(0), data, delay)
				}
				w.K.Settle(delay + 10*time.Second)
				noteTraffic()
				w.stat("probe:re-established-while-a-purge-is-due")
				for k, r := range reps {
					bs := d.reached[r.rid]
					if len(bs) != 1 {
						w.stat("skipped:re-invite-not-dispatched-once")
						continue
					}
					// the re-INVITE kept the dialog's tags: its answer carries them too, so the toTag stays
					var t0 time.Duration = -1
					for i := len(w.N.Events) - 1; i >= 0; i-- {
						ev := w.N.Events[i]
						if ev.Kind == "udp-arrive" && ev.A == bs[0] {
							t0 = ev.At
							break
						}
					}
					if t0 < 0 {
						continue
					}
					life := timeout
					if e := op.I["expires"]; time.Duration(e)*time.Second > life {
						life = time.Duration(e) * time.Second
					}
					npm := &pinModel{backend: bs[0], t0: t0, life: life, op: r.pm.op}
					pins[r.pm.op.ID] = npm
					arrive := w.K.Elapsed() + 200*time.Microsecond
					pid := fmt.Sprintf("%s.rp%d", op.ID, k)
					at, total := probe(npm, pid, arrive)
					judgeProbe(npm, pid, arrive, at, total)
				}
			case "advance":
				w.K.Advance(time.Duration(op.Dur))
			case "check-table":
				if len(keep) == 0 {
					continue
				}
				// in-package observation: no entry may have expired more than one
				// timeout period (plus the longest traffic gap) ago
				now := w.K.Now()
				if g := w.K.Elapsed() - lastTraffic; g > maxGap {
					maxGap = g // the gap that is still open counts too: no traffic, no sweep
				}
				w.Stats["judged:C15"]++
				for _, px := range keep {
					tbl := c15Table(px)
					w.Stats["table-entries-seen"] += len(tbl)
					stale := 0
					var example string
					var oldest time.Duration
					for _, e := range tbl {
						if age := now.Sub(e.expire); age > timeout+maxGap+time.Second {
							stale++
							if age > oldest {
								oldest = age
								example = e.key
							}
						}
					}
					if stale > 0 {
						v("expired-entries-not-purged", "", "", "%d of %d remembered entries expired more than one dialog-timeout (%v) plus the longest traffic gap (%v) ago while traffic continued; oldest %q expired %v ago", stale, len(tbl), timeout, maxGap, example, oldest)
						return
					}
				}
			}
		}
	}
	var w *World
	if purge {
		w = runWorldKeep(t, p, &keep, body)
	} else {
		w = runWorld(t, p, body)
	}
	finish(w, p, r)
	r.Judged = w.Stats["judged:C15"]
	if p.Prop == "C04" {
		r.Stats["judged:C04"] = r.Judged
	}
	r.Class = fmt.Sprintf("%s/T%d/B%d/ops%d", p.Variant, p.Cfg.Knobs["timeout"], len(p.Cfg.Listens[0].Backends), len(p.Ops))
	var steps []string
	for i, op := range p.Ops {
		if i > 12 {
			break
		}
		s := op.Kind
		if op.Kind == "probe-at" {
			s += fmt.Sprintf("(expiry%+dns)", op.Dur)
		}
		if op.Kind == "pin" {
			s += fmt.Sprintf("(Expires=%d)", op.I["expires"])
		}
		steps = append(steps, s)
	}
	s, _ := json.Marshal(map[string]interface{}{"variant": p.Variant, "dialog_timeout_s": p.Cfg.Knobs["timeout"], "yaml_timeout": p.Cfg.DialogTimeout, "env_timeout": p.Cfg.EnvDialogTO, "steps": steps})
	r.Sample = s
	return r
}

func simnetNoFaults() simnet.Faults {
	return simnet.Faults{MinLat: 100 * time.Microsecond, MaxLat: 100 * time.Microsecond}
}

func expiresClass(e, timeout int) string {
	switch {
	case e < 0:
		return "absent"
	case e == 2147483647:
		return "max"
	case e > timeout:
		return "larger"
	}
	return "smaller"
}

func init() {
	register("C15", genLifetimePlan, execLifetime)
}
