//go:build verif

package main

import (
	"encoding/json"
	"fmt"
	"sort"
	"strings"
	"testing"
	"time"

	"verif/sim/simnet"
	"verif/sim/sipwire"
)

// C19: the backend rotation follows name resolution, with bounded failure
// tolerance. Listeners whose backends are host names; the simulated DNS plays
// a script of outcomes per name and per poll; the real resolver's 2 s poll
// runs on the simulated clock; after each poll the world runs to quiescence
// and probes. The same world, with the rotation oracle, serves C05 (i):
// unpinned requests rotate evenly over the backends registered right now.

var dnsPool = map[string][]string{
	"pool-a.backends.test": {"10.2.10.1", "10.2.10.2", "10.2.10.3", "10.2.10.4", "10.2.10.5"},
	"pool-b.backends.test": {"10.2.20.1", "10.2.20.2", "10.2.20.3"},
}

func genMembershipPlan(seed uint64, tier string) *Plan {
	g := newGen(seed)
	p := &Plan{Sched: g.intn(3), PCTDepth: 1 + g.intn(3), MapPerm: g.chance(50)}
	c := &p.Cfg
	c.Name = "svc.example.com"
	scheme := g.pick("udp", "udp", "tcp")
	names := []string{"pool-a.backends.test"}
	if g.chance(35) {
		names = append(names, "pool-b.backends.test")
	}
	l := ListenCfg{Addr: "10.0.0.1", UDP: 5060, TCP: 5060}
	for i, n := range names {
		port := "5070"
		if i > 0 {
			port = g.pick("5070", "5080") // two names feeding one rotation need not use the same port
		}
		l.Backends = append(l.Backends, scheme+"://"+n+":"+port)
	}
	if g.chance(20) {
		// a literal backend next to the named ones
		l.Backends = append(l.Backends, scheme+"://10.2.30.1:5070")
	}
	c.Listens = []ListenCfg{l}
	c.Faults = simnetNoFaults()
	c.DNSScript = map[string][]simnet.Answer{}
	steps := g.rng(2, 6)
	universe := 3
	if tier == "thorough" && g.chance(50) {
		steps = g.rng(6, 60)
		universe = 5
	}
	// sporadic failures need room: more than three failed lookups in all, never more than three in a row (the
	// shortest such histories have six entries)
	sporadic := g.chance(15)
	if sporadic && steps < 7 {
		steps = g.rng(7, 12)
	}
	for _, n := range names {
		pool := dnsPool[n]
		if len(pool) > universe {
			pool = pool[:universe]
		}
		var sc []simnet.Answer
		failRun := 0
		if sporadic {
			// sporadic failures: single failed lookups between successful ones that return the same addresses -
			// never more than three in a row, so the rotation must stay as it is however many there are in total
			var same []string
			for _, ip := range pool {
				if g.chance(60) {
					same = append(same, ip)
				}
			}
			if len(same) == 0 {
				same = []string{pool[0]}
			}
			for i := 0; i < steps+1; i++ {
				if i%2 == 1 || (i > 0 && g.chance(25) && !(len(sc) >= 3 && sc[len(sc)-1].Fail && sc[len(sc)-2].Fail && sc[len(sc)-3].Fail)) {
					sc = append(sc, simnet.Answer{Fail: true})
				} else {
					sc = append(sc, simnet.Answer{IPs: append([]string(nil), same...)})
				}
			}
			c.DNSScript[n] = sc
			continue
		}
		for i := 0; i < steps+1; i++ {
			// failure runs of length 3 and 4 are what the statement is about
			if failRun > 0 {
				sc = append(sc, simnet.Answer{Fail: true})
				failRun--
				continue
			}
			switch g.intn(6) {
			case 0:
				failRun = g.pick2(0, 1, 2, 3, 4) // this failure plus failRun more
				sc = append(sc, simnet.Answer{Fail: true})
			default:
				var ips []string
				for _, ip := range pool {
					if g.chance(55) {
						ips = append(ips, ip)
					}
				}
				// duplicate-free, any order
				for i := len(ips) - 1; i > 0; i-- {
					j := g.intn(i + 1)
					ips[i], ips[j] = ips[j], ips[i]
				}
				if len(ips) == 0 && g.chance(70) {
					ips = []string{pool[g.intn(len(pool))]}
				}
				sc = append(sc, simnet.Answer{IPs: ips})
			}
		}
		c.DNSScript[n] = sc
	}
	c.Knobs = map[string]int{"steps": steps, "dnsPeriodMs": 2000}
	if scheme == "udp" && g.chance(20) {
		// while the resolver's notifications are handled, the socket for a new backend cannot be made now and then
		// (EMFILE): that address stays out of the rotation; everything else is as resolved - above all, what was
		// withdrawn in the same round is gone
		c.Knobs["bindErrPct"] = g.pick2(15, 40)
	}
	if scheme == "tcp" {
		for _, n := range names {
			for _, ip := range dnsPool[n] {
				c.TCPSinks = append(c.TCPSinks, ip+":5070", ip+":5080")
			}
		}
		c.TCPSinks = append(c.TCPSinks, "10.2.30.1:5070")
	}
	for i := 0; i < steps; i++ {
		p.Ops = append(p.Ops, Op{Kind: "poll", ID: fmt.Sprintf("poll%d", i+1), I: map[string]int{"attr": g.intn(3)}})
	}
	return p
}

type nameModel struct {
	addrs  []string
	failed int
}

func (m *nameModel) apply(a simnet.Answer) {
	if a.Fail || len(a.IPs) == 0 { // an empty answer is a failed lookup for the caller
		m.failed++
		if m.failed > 3 {
			m.addrs = nil
			m.failed = 0
		}
		return
	}
	m.failed = 0
	m.addrs = append([]string(nil), a.IPs...)
}

func execMembership(t *testing.T, p *Plan) *Result {
	r := &Result{}
	prop := p.Prop
	w := runWorld(t, p, func(w *World) {
		c := &p.Cfg
		l := c.Listens[0]
		scheme := l.Backends[0][:3]
		v := func(pr, rule, id, sig, format string, a ...interface{}) {
			w.Viol = append(w.Viol, Violation{Prop: pr, Rule: rule, Msg: id, Sig: sig, Detail: fmt.Sprintf(format, a...)})
		}
		d := newDlgWorld(w, p)
		d.exact = true
		// named backends: bind a UDP party at every address of the pools so that they can answer
		if scheme == "udp" {
			for _, pool := range dnsPool {
				for _, ip := range pool {
					d.bindBackend(ip + ":5070")
					d.bindBackend(ip + ":5080")
				}
			}
		}
		models := map[string]*nameModel{}
		portOf := map[string]string{}
		var names []string
		literal := ""
		for _, b := range l.Backends {
			hp := b[6:]
			host := hp[:strings.LastIndex(hp, ":")]
			if _, ok := dnsPool[host]; ok {
				names = append(names, host)
				models[host] = &nameModel{}
				portOf[host] = hp[strings.LastIndex(hp, ":")+1:]
			} else {
				literal = hp
			}
		}
		pos := map[string]int{}
		ambiguous := map[string]bool{}
		var baseScript func(party string, m *sipwire.Msg, id string) []respPlan
		lateIDs := map[string]bool{}
		vanished := "" // an address that vanished and then sent a late answer: the non-member of the attribution probe
		poolAddr := map[string]bool{}
		for n, pool := range dnsPool {
			for _, ip := range pool {
				poolAddr[ip+":5070"] = true
				poolAddr[ip+":5080"] = true
			}
			_ = n
		}
		bindFailed := false // a backend socket could not be made at some point: some resolved address may be missing
		type pinnedDialog struct {
			ids     dlgIDs
			backend string
			step    string
		}
		var pinnedDialogs []pinnedDialog
		// script entry k answers the lookups made around t = 2k s: entry 0 is the start-up resolution
		// (and the poll loop's first round if the scheduler lets it run at the same instant)
		for _, n := range names {
			sc := c.DNSScript[n]
			got := w.N.DNS.ScriptPos(n)
			if got < 1 || got > 2 {
				w.K.Failures = append(w.K.Failures, fmt.Sprintf("harness: %d lookups of %s during start-up", got, n))
				return
			}
			a := sc[0]
			if !a.Fail && len(a.IPs) > 0 {
				models[n].apply(a)
			}
			if got == 2 {
				w.stat("probe:first-poll-round-ran-at-start-up")
			}
			pos[n] = got
		}
		modelSet := func() []string {
			var s []string
			for _, n := range names {
				for _, ip := range models[n].addrs {
					s = append(s, ip+":"+portOf[n])
				}
			}
			if literal != "" {
				s = append(s, literal)
			}
			sort.Strings(s)
			return s
		}
		seq := 0
		send := func(method string, ids dlgIDs, o reqOpts) string {
			seq++
			o.id = fmt.Sprintf("q%d", seq)
			o.method = method
			o.srcAddr = "10.1.0.1:5060"
			data := ids.request(o)
			st := w.N.Emissions
			_ = st
			d.sendRequest("10.1.0.1:5060", 0, data, o.id)
			w.K.Settle(5 * time.Second)
			return o.id
		}
		shaped := map[int]bool{}
		destOf := func(id string) []string {
			var out []string
			for _, e := range w.decodeEmissions(0) {
				if e.ID == id {
					out = append(out, e.E.Dst)
					if e.M != nil && e.M.IsRequest && e.E.Err == "" && !shaped[e.E.Seq] {
						shaped[e.E.Seq] = true
						// every request of this world comes with one Via entry and leaves towards a backend: one fresh
						// entry of the listen entry on top of it, whatever the rotation went through meanwhile (C06)
						w.Stats["judged:C06"]++
						vias, err := e.M.Vias()
						lport := l.UDP
						if strings.EqualFold(e.E.Proto, "tcp") && l.TCP != 0 {
							lport = l.TCP
						}
						if err != nil || len(vias) != 2 {
							v("C06", "via-count-towards-backend", id, fmt.Sprintf("scheme=%s;n=%d", scheme, len(vias)), "a request received with one Via entry was sent to backend %s with %d", e.E.Dst, len(vias))
						} else if vias[0].Host != l.Addr || vias[0].EffPort() != lport && vias[0].EffPort() != l.UDP && vias[0].EffPort() != l.TCP {
							v("C06", "via-names-wrong-listener", id, "scheme="+scheme, "the Via entry on top of a request sent to backend %s is %q; the listen entry is %s", e.E.Dst, vias[0].Raw, l.Addr)
						}
					}
				}
			}
			return out
		}

		probeAll := func(step string) {
			for _, n := range names {
				if ambiguous[n] {
					w.stat("dontcare:probe-skipped-while-ambiguous")
					return
				}
			}
			S := modelSet()
			sig := fmt.Sprintf("scheme=%s;names=%d", scheme, len(names))
			// (0) dialogs pinned in earlier steps stay with their backend whatever the rotation looks like now - also
			// when that backend has been withdrawn meanwhile (then the request may be lost with it, but it is never
			// handed to somebody else): C04's "to that same backend and to no other"
			for k, pd := range pinnedDialogs {
				if pd.step == step {
					continue
				}
				id := send("INFO", pd.ids, reqOpts{cseq: 50 + k})
				w.Stats["judged:C04"]++
				for _, dst := range destOf(id) {
					if dst != pd.backend {
						still := false
						for _, m := range S {
							still = still || m == pd.backend
						}
						v("C04", "in-dialog-request-left-its-backend", step, fmt.Sprintf("%s;withdrawn=%v", sig, !still), "a dialog pinned to %s at %s: after %s (rotation %v) its INFO was sent to %s", pd.backend, pd.step, step, S, dst)
					}
				}
			}
			// (a) dispatch probe + rotation (C05)
			n := 2*len(S) + 1
			var targets []string
			for i := 0; i < n; i++ {
				ids := dlgIDs{callID: fmt.Sprintf("probe-%s-%d", step, i), fromURI: "sip:p@caller.test", toURI: "sip:svc@svc.example.com", fromTag: fmt.Sprintf("pt%s%d", step, i), ruri: "sip:svc.example.com"}
				emBefore := len(w.N.Emissions)
				// requests of any method that belong to no known dialog are load-balanced - also those that look like
				// requests of a dialog (a To tag nobody here knows: unsolicited NOTIFY, BYE of a call from before a restart)
				meth, o := "OPTIONS", reqOpts{cseq: 1, noToTag: true}
				switch (i + len(S) + len(step)) % 6 {
				case 1:
					meth, o.noToTag = "NOTIFY", false
					ids.toTag = fmt.Sprintf("ut%s%d", step, i)
					o.extra = []sipwire.Header{{Name: "Event", Value: "presence"}, {Name: "Subscription-State", Value: []string{"active;expires=60", "terminated"}[i%2]}}
				case 2:
					meth, o.noToTag = "BYE", false
					ids.toTag = fmt.Sprintf("ub%s%d", step, i)
				case 3:
					meth = "MESSAGE"
				}
				id := send(meth, ids, o)
				ds := destOf(id)
				if len(S) == 0 && len(w.N.Emissions) != emBefore && len(ds) == 0 {
					// "with no backend registered the request is dropped": nothing at all is sent because of it
					e := w.N.Emissions[emBefore]
					v("C05", "request-not-dropped-with-empty-rotation", step, sig, "after %s no backend is registered; the request %s made the proxy send %d message(s), the first to %s:\n%s", step, id, len(w.N.Emissions)-emBefore, e.Dst, clip(string(e.Data), 300))
					v("C19", "request-not-dropped-with-empty-rotation", step, sig, "after %s the rotation is empty; the request %s made the proxy send %d message(s), the first to %s:\n%s", step, id, len(w.N.Emissions)-emBefore, e.Dst, clip(string(e.Data), 300))
				}
				w.Stats["judged:C19"]++
				w.Stats["judged:C05"]++
				switch {
				case len(S) == 0:
					if len(ds) != 0 {
						v("C19", "dispatch-to-removed-backend", step, sig, "after %s the model's rotation is empty but a request was sent to %v", step, ds)
					}
				case len(ds) != 1 && !(bindFailed && len(ds) == 0):
					v("C19", "dispatch-count", step, sig, "after %s (rotation %v) an unpinned request was sent %d time(s): %v", step, S, len(ds), ds)
				case len(ds) == 0:
					w.stat("dontcare:rotation-may-be-empty-after-bind-failure")
				default:
					targets = append(targets, ds[0])
					in := false
					for _, s := range S {
						if s == ds[0] {
							in = true
						}
					}
					if !in {
						v("C19", "dispatch-outside-rotation", step, sig, "after %s a request was sent to %s, the resolved addresses are %v", step, ds[0], S)
					}
				}
			}
			if len(S) > 0 && len(targets) == n {
				seen := map[string]int{}
				for _, t := range targets {
					seen[t]++
				}
				if bindFailed {
					// which of the resolved addresses are missing is not known: the rotation is over those that answer
					w.stat("dontcare:resolved-address-may-be-missing-after-bind-failure")
					var present []string
					for _, s := range S {
						if seen[s] > 0 {
							present = append(present, s)
						}
					}
					S = present
				}
				for _, s := range S {
					if seen[s] == 0 {
						v("C19", "resolved-address-not-in-rotation", step, sig, "after %s %d requests reached %v: the resolved address %s received nothing (rotation %v)", step, n, targets, s, S)
					}
				}
				// C05: any k consecutive dispatches over k backends reach each exactly once
				k := len(S)
				for i := 0; i+k <= len(targets); i++ {
					win := map[string]bool{}
					for _, t := range targets[i : i+k] {
						win[t] = true
					}
					if len(win) != k {
						v("C05", "rotation-not-even", step, fmt.Sprintf("k=%d", k), "with %d backends %v registered and no membership change, consecutive dispatches reached %v: the window starting at %d does not reach each backend exactly once", k, S, targets, i)
						break
					}
				}
			}
			// (b) attribution probe: an answer from another member's address pins the dialog to that member
			if scheme == "udp" && len(S) > 0 && !bindFailed {
				d.respScript = func(string, *sipwire.Msg, string) []respPlan { return nil } // the harness answers by hand
				ids := dlgIDs{callID: "attr-" + step, fromURI: "sip:c@caller.test", toURI: "sip:svc@svc.example.com", fromTag: "af" + step, toTag: "at" + step, ruri: "sip:svc.example.com"}
				inv := send("INVITE", ids, reqOpts{cseq: 1, noToTag: true})
				ems := destOf(inv)
				if len(ems) == 1 {
					var relayed *Emitted
					for _, e := range w.decodeEmissions(0) {
						if e.ID == inv {
							relayed = e
						}
					}
					// answer from a member other than the one dispatched to (if there is one), and from a non-member
					srcs := attributionSources(S, ems[0], models, names, portOf)
					if vanished != "" {
						stillGone := true
						for _, m := range S {
							stillGone = stillGone && m != vanished
						}
						if stillGone {
							srcs = append(srcs[:1:1], vanished)
						}
					}
					for _, from := range srcs {
						member := false
						for _, s := range S {
							if s == from {
								member = true
							}
						}
						tag := "at" + step + strings.ReplaceAll(strings.ReplaceAll(from, ".", ""), ":", "")
						resp := buildResponse(relayed.M, respPlan{status: 200, toTag: tag, expires: -1}, inv+from)
						w.N.InjectUDP(udpAddr(from), udpAddr(hostPort(l.Addr, l.UDP)), resp, 100*time.Microsecond)
						w.K.Settle(5 * time.Second)
						ids2 := ids
						ids2.toTag = tag
						// several in-dialog requests: pinned -> all at `from`; not pinned -> rotation
						at := 0
						total := 0
						for k := 0; k < len(S)+1; k++ {
							id := send("INFO", ids2, reqOpts{cseq: 2 + k})
							for _, dst := range destOf(id) {
								total++
								if dst == from {
									at++
								}
							}
						}
						w.Stats["judged:C19"]++
						asig := fmt.Sprintf("%s;member=%v", sig, member)
						if member && at == total && total > 0 {
							pinnedDialogs = append(pinnedDialogs, pinnedDialog{ids2, from, step})
						}
						if member && at != total {
							v("C19", "answer-from-member-not-attributed", step, asig, "after %s a 2xx from %s (in rotation %v) must bind the dialog to it, but only %d of %d in-dialog requests reached it", step, from, S, at, total)
						}
						if !member && at > 0 {
							v("C19", "answer-from-removed-address-attributed", step, asig, "after %s %s is not in the rotation %v, yet a 2xx from it bound the dialog: %d of %d in-dialog requests were sent to it", step, from, S, at, total)
						}
					}
				}
				d.respScript = baseScript
			}
			// (c) socket accounting
			w.Stats["judged:C19"]++
			if scheme == "udp" {
				// sockets the proxy holds towards backends: every ephemeral socket that is not a listener
				// a UDP backend owns one socket bound to the (unset) backend-local-address, i.e. the
				// wildcard address; the listener and the client transports are bound to the listener's address
				open := 0
				for _, s := range w.N.ProxyUDPSockets() {
					if s.Local.IP == nil {
						open++
					}
				}
				if open != len(S) && !(bindFailed && open <= len(modelSet())) {
					var locals []string
					for _, s := range w.N.ProxyUDPSockets() {
						locals = append(locals, s.Local.String())
					}
					v("C19", "backend-socket-not-closed", step, sig, "after %s the rotation holds %d backends but the proxy keeps %d sockets towards backends open: %v", step, len(S), open, locals)
				}
			}
			if scheme == "tcp" {
				// "vanished ones removed and closed": no connection the proxy dialled towards an address that is no longer
				// in the rotation stays open - however often it had to reconnect to it before
				in := map[string]bool{}
				for _, m := range S {
					in[m] = true
				}
				for _, e := range w.N.Conns {
					if e.Proxy && e.Dialer && !e.Closed() && !e.IsReset() && !in[e.Remote.String()] && !e.Peer.Closed() {
						if _, pool := poolAddr[e.Remote.String()]; pool {
							v("C19", "backend-connection-not-closed", step, sig, "after %s %s is not in the rotation %v, but connection %d which the proxy dialled to it is still open", step, e.Remote.String(), S, e.ID)
							break
						}
					}
				}
				// now and then the backends restart: every connection towards them is reset; the next dispatch reconnects
				if w.K.Draw(4) == 0 {
					nreset := 0
					for _, e := range w.N.Conns {
						if !e.Proxy && !e.Dialer && !e.Closed() && !e.IsReset() && e.Peer.Proxy {
							if _, pool := poolAddr[e.Local.String()]; pool {
								e.Reset()
								nreset++
							}
						}
					}
					if nreset > 0 {
						w.stat("probe:backend-connections-reset")
						w.K.Settle(time.Second)
					}
				}
			}
		}
		// requests whose id starts with "late" are left unanswered by the backends: the harness answers them by hand,
		// after the next resolution step, from the address they were dispatched to
		baseScript = func(party string, m *sipwire.Msg, id string) []respPlan {
			if strings.HasPrefix(id, "q") && lateIDs[id] {
				return nil
			}
			return []respPlan{{delay: 200 * time.Microsecond, status: 200, expires: -1}}
		}
		d.respScript = baseScript
		probeAll("start")
		for i := range p.Ops {
			op := &p.Ops[i]
			if op.Kind != "poll" || w.dead() {
				continue
			}
			// a call is ringing at some backend while the resolution changes: its late provisional answer comes from
			// that backend's address afterwards - if the address has vanished by then, the answer must not make the
			// proxy recognise it as a backend again
			var lateReq *Emitted
			lateFrom := ""
			if scheme == "udp" && prop != "C05" && len(modelSet()) > 0 && op.I["attr"] != 1 {
				seq++
				id := fmt.Sprintf("q%d", seq)
				lateIDs[id] = true
				ids := dlgIDs{callID: "late-" + id, fromURI: "sip:l@caller.test", toURI: "sip:svc@svc.example.com", fromTag: "lt" + id, ruri: "sip:svc.example.com"}
				data := ids.request(reqOpts{cseq: 1, noToTag: true, id: id, method: "INVITE", srcAddr: "10.1.0.1:5060"})
				d.sendRequest("10.1.0.1:5060", 0, data, id)
				w.K.Settle(5 * time.Second)
				for _, e := range w.decodeEmissions(0) {
					if e.ID == id && e.E.Err == "" {
						lateReq, lateFrom = e, e.E.Dst
					}
				}
			}
			// let exactly one poll happen
			var racing []string
			before := modelSet()
			if nr := op.I["race"]; nr > 0 && prop == "C05" {
				// requests that reach the proxy at the instant of the poll (the resolver's period starts with the world)
				period := 2 * time.Second
				rem := period - w.K.Elapsed()%period
				for k := 0; k < nr; k++ {
					seq++
					id := fmt.Sprintf("q%d", seq)
					ids := dlgIDs{callID: "race-" + id, fromURI: "sip:r@caller.test", toURI: "sip:svc@svc.example.com", fromTag: "rt" + id, ruri: "sip:svc.example.com"}
					data := ids.request(reqOpts{cseq: 1, noToTag: true, id: id, method: "OPTIONS", srcAddr: "10.1.0.1:5060"})
					d.uaSocket("10.1.0.1:5060")
					w.N.InjectUDP(udpAddr("10.1.0.1:5060"), udpAddr(hostPort(l.Addr, l.UDP)), data, rem)
					racing = append(racing, id)
				}
				w.stat("probe:dispatches-racing-with-the-poll")
			}
			w.N.F.UDPBindErrPct = c.Knobs["bindErrPct"]
			w.K.Advance(2 * time.Second)
			w.K.Settle(5 * time.Second)
			w.N.F.UDPBindErrPct = 0
			if w.N.Fired["udp-bind-emfile"] > 0 {
				bindFailed = true
			}
			for _, n := range names {
				got := w.N.DNS.ScriptPos(n)
				if got != pos[n]+1 {
					// the resolver did not look the name up in this poll period (or more than once):
					// not the harness's business - the probes below judge what the rotation looks like
					w.stat("probe:poll-period-without-exactly-one-lookup")
				}
				pos[n] = got
				sc := c.DNSScript[n]
				idx := i + 1
				if idx >= len(sc) {
					idx = len(sc) - 1
				}
				models[n].apply(sc[idx])
				if sc[idx].Fail || len(sc[idx].IPs) == 0 {
					w.stat(fmt.Sprintf("probe:consecutive-failure-%d", min4(models[n].failed)))
				}
			}
			if lateReq != nil && lateReq.M != nil {
				gone := true
				for _, m := range modelSet() {
					gone = gone && m != lateFrom
				}
				if gone {
					resp := buildResponse(lateReq.M, respPlan{status: 180, toTag: "lt180", expires: -1}, lateReq.ID)
					w.N.InjectUDP(udpAddr(lateFrom), udpAddr(hostPort(l.Addr, l.UDP)), resp, 100*time.Microsecond)
					w.K.Settle(5 * time.Second)
					vanished = lateFrom
					w.stat("probe:late-answer-from-a-vanished-address")
				}
			}
			// a racing dispatch saw the rotation before or after the change: one target at most, a member of either
			after := modelSet()
			for _, id := range racing {
				ds := destOf(id)
				w.Stats["judged:C05"]++
				ok := len(ds) <= 1
				for _, dst := range ds {
					in := false
					for _, s := range append(append([]string{}, before...), after...) {
						if s == dst {
							in = true
						}
					}
					ok = ok && in
				}
				stays := false
				for _, b := range before {
					for _, a := range after {
						stays = stays || a == b
					}
				}
				if len(ds) == 0 && stays && !bindFailed {
					ok = false // some backend was registered throughout: the request cannot have met an empty rotation
				}
				if !ok {
					v("C05", "racing-dispatch", op.ID, fmt.Sprintf("n=%d", len(ds)), "a request that arrived while the rotation changed from %v to %v was sent to %v", before, after, ds)
				}
			}
			probeAll(op.ID)
		}
	})
	finish(w, p, r)
	r.Judged = w.Stats["judged:"+prop]
	var sc []string
	for n, s := range p.Cfg.DNSScript {
		var parts []string
		for _, a := range s {
			if a.Fail {
				parts = append(parts, "FAIL")
			} else {
				parts = append(parts, fmt.Sprint(len(a.IPs)))
			}
		}
		sc = append(sc, n+":"+strings.Join(parts, ","))
	}
	sort.Strings(sc)
	r.Class = strings.Join(p.Cfg.Listens[0].Backends, ",") + "/" + strings.Join(sc, ";")
	s, _ := json.Marshal(map[string]interface{}{"backends": p.Cfg.Listens[0].Backends, "dns_script": p.Cfg.DNSScript, "polls": len(p.Ops)})
	r.Sample = s
	return r
}

func sortedCopy(a []string) []string {
	b := append([]string(nil), a...)
	sort.Strings(b)
	return b
}

func min4(n int) int {
	if n == 0 {
		return 4 // the counter was reset by the fourth failure
	}
	return n
}

// attributionSources: a member other than the one the INVITE was dispatched
// to (if any), and an address of the pools that is not in the rotation now.
func attributionSources(S []string, dispatched string, models map[string]*nameModel, names []string, portOf map[string]string) []string {
	var out []string
	for _, s := range S {
		if s != dispatched {
			out = append(out, s)
			break
		}
	}
	if len(out) == 0 {
		out = append(out, dispatched)
	}
	in := map[string]bool{}
	for _, s := range S {
		in[s] = true
	}
	for _, n := range names {
		for _, ip := range dnsPool[n] {
			if !in[ip+":"+portOf[n]] {
				return append(out, ip+":"+portOf[n])
			}
		}
	}
	return out
}

func init() {
	register("C19", genMembershipPlan, execMembership)
}
