//go:build verif

package main

import (
	"net"
	"regexp"
	"strconv"
	"strings"

	"verif/sim/sipwire"
)

// Reference functions written from the property statements. They never call
// sipproxy code.

// ---- C18: static route lookup ----

type routeEntry struct {
	Pattern string
	Proto   string
	Host    string
	Port    int
}

func flattenRoutes(rs []RouteCfg) []routeEntry {
	var out []routeEntry
	for _, r := range rs {
		for _, d := range r.Dests {
			e := routeEntry{Pattern: d, Proto: r.Proto}
			if i := strings.LastIndex(r.NextHop, ":"); i >= 0 {
				e.Host = r.NextHop[:i]
				e.Port, _ = strconv.Atoi(r.NextHop[i+1:])
			} else {
				e.Host = r.NextHop
				e.Port = 5060
				if strings.EqualFold(r.Proto, "tls") {
					e.Port = 5061
				}
			}
			// a later entry for the same pattern replaces the earlier one
			replaced := false
			for i := range out {
				if out[i].Pattern == d {
					out[i] = e
					replaced = true
				}
			}
			if !replaced {
				out = append(out, e)
			}
		}
	}
	return out
}

// globMatch: '*' stands for any character sequence, everything else for itself.
func globMatch(pattern, s string) bool {
	parts := strings.Split(pattern, "*")
	if len(parts) == 1 {
		return pattern == s
	}
	if !strings.HasPrefix(s, parts[0]) {
		return false
	}
	s = s[len(parts[0]):]
	last := parts[len(parts)-1]
	for _, p := range parts[1 : len(parts)-1] {
		i := strings.Index(s, p)
		if i < 0 {
			return false
		}
		s = s[i+len(p):]
	}
	return strings.HasSuffix(s, last) && len(s) >= len(last)
}

// refStaticRoute returns the class of host and the set of admissible answers.
func refStaticRoute(entries []routeEntry, host string) (class string, allowed []routeEntry) {
	for _, e := range entries {
		if e.Pattern == host {
			return "literal", []routeEntry{e}
		}
	}
	for _, e := range entries {
		if strings.Contains(e.Pattern, "*") && globMatch(e.Pattern, host) {
			allowed = append(allowed, e)
		}
	}
	if len(allowed) > 0 {
		return "wildcard", allowed
	}
	for _, e := range entries {
		if e.Pattern == "default" {
			return "default", []routeEntry{e}
		}
	}
	return "none", nil
}

// ---- host resolution through the configured tables ----

func (c *Cfg) resolve(host string) (string, bool) {
	if ip := net.ParseIP(host); ip != nil {
		return ip.String(), true
	}
	ans := ""
	for _, h := range c.GlobalHosts {
		if h.Name == host {
			ans = h.IP
		}
	}
	for _, h := range c.Hosts {
		if h.Name == host {
			ans = h.IP
		}
	}
	if ans != "" {
		return ans, true
	}
	if ips, ok := c.DNS[host]; ok && len(ips) > 0 {
		return ips[0], true
	}
	return "", false
}

// ---- C03: does the Request-URI address the service? ----

func refServiceMatch(names string, uri string) bool {
	na, _ := sipwire.ParseNameAddr("<" + uri + ">")
	var subject string
	sip := na.Scheme == "sip" || na.Scheme == "sips"
	if sip {
		subject = na.User + "@" + na.Host
	} else {
		subject = uri
	}
	for _, n := range strings.Split(names, ",") {
		n = strings.TrimSpace(n)
		if n == subject {
			return true
		}
		if sip && !strings.Contains(n, "@") && n == na.Host {
			return true
		}
		if re, err := regexp.Compile(n); err == nil && re.MatchString(subject) {
			return true
		}
	}
	return false
}

// ---- comparison helpers ----

func kvEqual(a, b []sipwire.KV) bool {
	if len(a) != len(b) {
		return false
	}
	for i := range a {
		if a[i].K != b[i].K || a[i].V != b[i].V {
			return false
		}
		// "k" and "k=" are the same parameter without a value
		if a[i].HasVal != b[i].HasVal && (a[i].V != "" || b[i].V != "") {
			return false
		}
	}
	return true
}

// viaEqual compares (sent-protocol, host, effective port, parameters in order).
func viaEqual(a, b sipwire.Via) bool {
	return a.Proto == b.Proto && a.Host == b.Host && a.EffPort() == b.EffPort() && kvEqual(a.Params, b.Params)
}

func viaString(v sipwire.Via) string {
	s := v.Proto + " " + v.Host
	if v.Port != 0 {
		s += ":" + strconv.Itoa(v.Port)
	}
	for _, p := range v.Params {
		s += ";" + p.String()
	}
	return s
}

// nameAddrEqual compares display name, URI and parameters byte for byte
// (modulo blanks around the display name).
func nameAddrEqual(a, b sipwire.NameAddr) bool {
	return strings.TrimSpace(a.Display) == strings.TrimSpace(b.Display) && a.URI == b.URI && kvEqual(a.HParams, b.HParams)
}

func routeTransport(na sipwire.NameAddr) string {
	if p, ok := na.UParam("transport"); ok && p.V != "" {
		return strings.ToLower(p.V)
	}
	return "udp"
}

func supportedTransport(t string) bool {
	t = strings.ToLower(t)
	return t == "udp" || t == "tcp"
}
