//go:build verif

package main

import (
	"bytes"
	"encoding/json"
	"fmt"
	"net"
	"sort"
	"strconv"
	"strings"
	"testing"
	"time"

	"verif/sim/simnet"
	"verif/sim/sipwire"
)

// The relay world: the real proxy started from generated YAML; user agents,
// next hops and backends are simulated parties; requests and responses are
// injected over UDP and TCP; every emission is judged against the reference
// model written from the property statements (C01 C02 C03 C06 C07 C13 C18).

var serviceMenus = []string{
	"svc.example.com",
	"alice@example.com",
	"^.*@svc[0-9]+\\.example\\.com$",
	"urn:service:sos",
	"tel:+15550100",
	"svc.example.com,urn:service:sos",
	"desk@corp.test, ^sos\\.[a-z]+@corp\\.test$",
}

type relayTopo struct {
	uas      []string // ip
	hops     []string // next-hop IPs
	hopNames map[string]string
	unknown  []string
}

var topo = relayTopo{
	uas:      []string{"10.1.0.1", "10.1.0.2", "10.1.7.9", "10.1.200.3"},
	hops:     []string{"10.3.0.1", "10.3.0.2", "10.3.0.3"},
	hopNames: map[string]string{"nh1.hops.test": "10.3.0.1", "nh2.hops.test": "10.3.0.2", "nh3.Hops.Test": "10.3.0.3"}, // one name with capitals: names are used as they are configured,
	unknown:  []string{"10.9.0.1", "10.9.0.2", "10.9.3.3"},
}

func genRelayCfg(g *gen, focus string) *Cfg {
	c := &Cfg{Knobs: map[string]int{}}
	c.Name = serviceMenus[g.intn(len(serviceMenus))]
	nl := 1
	if g.chance(40) {
		nl = g.rng(2, 3)
	}
	for i := 0; i < nl; i++ {
		l := ListenCfg{Addr: fmt.Sprintf("10.0.0.%d", i+1)}
		switch g.intn(5) {
		case 0:
			l.UDP = 5060
		case 1:
			l.UDP = 5060
			l.TCP = 5060
		case 2:
			l.UDP = 5062 + i
			l.TCP = 5080 + i
		case 3:
			// the upper half of the port range
			l.UDP = 33000 + 7*i + g.intn(3)
			l.TCP = g.pick2(l.UDP, 61000+i, 65535-i)
		default:
			if focus == "C07" || g.chance(50) {
				l.UDP = 6000 + i
				l.TCP = 6000 + i
			} else {
				l.TCP = 5060
			}
		}
		nb := g.intn(4)
		if i == 0 && nb == 0 && g.chance(70) {
			nb = 2
		}
		for b := 0; b < nb; b++ {
			scheme := "udp"
			if g.chance(20) {
				scheme = "tcp"
			}
			addr := fmt.Sprintf("10.2.%d.%d:5070", i, b+1)
			l.Backends = append(l.Backends, scheme+"://"+addr)
			if scheme == "tcp" {
				c.TCPSinks = append(c.TCPSinks, addr)
			}
		}
		l.NoReceived = g.pick("", "", "true", "false")
		l.MustRR = g.chance(40)
		c.Listens = append(c.Listens, l)
	}
	if focus == "C07" && nl == 1 && g.chance(12) {
		// the entry listens on the wildcard address: the datagram socket is a dual-stack one, the proxy calls itself 0.0.0.0
		c.Listens[0].Addr = "0.0.0.0"
	}
	// aliases for listeners and names for next hops
	for i, l := range c.Listens {
		if g.chance(60) {
			h := HostCfg{Name: fmt.Sprintf("p%d.proxy.test", i+1), IP: l.Addr}
			if g.chance(30) {
				h.Name = fmt.Sprintf("Edge-P%d.Proxy.test", i+1) // used with this spelling everywhere
			}
			if g.chance(50) {
				c.Hosts = append(c.Hosts, h)
				if g.chance(20) {
					// the top-level table knows the name too, with a foreign address: the service's own entry wins
					c.GlobalHosts = append(c.GlobalHosts, HostCfg{Name: h.Name, IP: topo.hops[g.intn(len(topo.hops))]})
				}
			} else {
				c.GlobalHosts = append(c.GlobalHosts, h)
			}
		}
	}
	for _, n := range sortedNames(topo.hopNames) {
		if !g.chance(70) {
			if g.chance(50) {
				// not in any host table, but the name server knows it
				if c.DNS == nil {
					c.DNS = map[string][]string{}
				}
				c.DNS[n] = []string{topo.hopNames[n]}
			}
		} else {
			c.Hosts = append(c.Hosts, HostCfg{Name: n, IP: topo.hopNames[n]})
			if g.chance(15) {
				// the same name in the top-level table with another address: the service's own entry wins
				c.GlobalHosts = append(c.GlobalHosts, HostCfg{Name: n, IP: topo.hops[g.intn(len(topo.hops))]})
			}
		}
	}
	// static routes
	if g.chance(60) || focus == "C18" {
		c.Routes = genRouteTable(g, c, 1+g.intn(3))
	}
	// now and then a datagram write of the proxy fails (ENOBUFS): that one message is lost, nothing else changes
	c.Faults.UDPWriteErrPct = g.pick2(0, 0, 0, 0, 0, 4, 20)
	if focus != "C17" && g.chance(8) {
		// a slow node: the proxy's queue consumers take a while per item, so messages that arrive at different instants
		// are inside the proxy together (the twin worlds stay strictly sequential)
		c.Knobs["recvCostUs"] = g.pick2(100, 500, 2000)
	}
	c.KeepNextHop = g.pick("", "", "true", "false", "yes", "no", "1")
	if c.KeepNextHop == "" && g.chance(30) {
		c.EnvKeep = g.pick("true", "false", "on")
	} else if c.KeepNextHop != "" && g.chance(25) {
		c.EnvKeep = g.pick("true", "false", "on", "yes") // the environment also says something: the file's value wins
	}
	// every next-hop address may be a TCP destination
	for _, ip := range topo.hops {
		for _, port := range []int{5060, 5080, 45060, 65535} {
			c.TCPSinks = append(c.TCPSinks, hostPort(ip, port))
		}
	}
	for _, ip := range topo.uas {
		c.TCPSinks = append(c.TCPSinks, hostPort(ip, 5060), hostPort(ip, 5090))
	}
	c.Faults.MinLat = 50 * time.Microsecond
	c.Faults.MaxLat = 3 * time.Millisecond
	return c
}

func sortedNames(m map[string]string) []string {
	var ks []string
	for k := range m {
		ks = append(ks, k)
	}
	sort.Strings(ks)
	return ks
}

var routePatternUniverse = []string{"example.com", "a.example.com", "*.example.com", "example.*", "*", "default", "aXexample.com", "*.test", "corp.test", "b.corp.test", "*.corp.test",
	"corp.*", "*.tes*", // "corp.*" and "*.test", "*.tes*" and "*.test": overlapping wildcards of equal length
	"10.9.8.7", "10.9.*", "*.8.7"} // the host of a To URI may be an IPv4 literal: literal entries and patterns over the digits

func genRouteTable(g *gen, c *Cfg, n int) []RouteCfg {
	var out []RouteCfg
	used := map[string]bool{}
	for i := 0; i < n; i++ {
		r := RouteCfg{Proto: g.pick("udp", "udp", "tcp", "tls")}
		nd := 1 + g.intn(2)
		for d := 0; d < nd; d++ {
			p := routePatternUniverse[g.intn(len(routePatternUniverse))]
			if used[p] {
				continue
			}
			used[p] = true
			r.Dests = append(r.Dests, p)
		}
		if len(r.Dests) == 0 {
			continue
		}
		hop := topo.hops[g.intn(len(topo.hops))]
		if g.chance(30) {
			for _, h := range c.Hosts {
				if strings.HasPrefix(h.Name, "nh") && g.chance(50) {
					hop = h.Name
				}
			}
		}
		if g.chance(50) {
			r.NextHop = hop
		} else {
			r.NextHop = hop + ":" + g.pick("5060", "5080", "5080", "45060", "65535")
		}
		out = append(out, r)
	}
	return out
}

// effective keep-next-hop-route setting as the statement of C13 reads it
func (c *Cfg) keepNextHop() bool {
	s := c.KeepNextHop
	if s == "" {
		s = c.EnvKeep
	}
	switch strings.ToLower(s) {
	case "true", "yes", "1", "on", "t", "y":
		return true
	}
	return false
}

func (l *ListenCfg) receivedSupport() bool { return l.NoReceived != "true" }

// ip is the address packets for the listen entry are sent to: the configured one, or - when the entry listens on the
// wildcard address - the host's address in the simulated network. Addr stays what the proxy calls itself.
func (l *ListenCfg) ip() string {
	if l.Addr == "0.0.0.0" || l.Addr == "" || l.Addr == "::" {
		return wildcardHostIP
	}
	return l.Addr
}

const wildcardHostIP = "10.0.0.1"

func (l *ListenCfg) port(transport string) int {
	if transport == "tcp" {
		return l.TCP
	}
	return l.UDP
}

// ---- request generation ----

type reqSpec struct {
	listen    int
	proto     string
	srcIP     string
	srcPort   int
	routeCls  string // none | own | own+next | next | foreign-first
	ruriCls   string // svc | listener | foreign
	toCls     string // any | routed
	nextTrans string
}

func svcURIs(g *gen, names string) (match []string, miss []string) {
	for _, n := range strings.Split(names, ",") {
		n = strings.TrimSpace(n)
		switch {
		case strings.HasPrefix(n, "^.*@svc"):
			match = append(match, fmt.Sprintf("sip:%s@svc%d.example.com", g.user0(), g.intn(100)))
		case strings.HasPrefix(n, "^sos"):
			match = append(match, "sip:sos."+strings.ToLower(g.alnumL(3, 6))+"@corp.test")
		case strings.HasPrefix(n, "urn:"), strings.HasPrefix(n, "tel:"):
			match = append(match, n)
		case strings.Contains(n, "@"):
			match = append(match, "sip:"+n, "sip:"+n+":5060", "sip:"+n+";user=phone")
		default:
			match = append(match, "sip:"+n, "sip:"+g.user0()+"@"+n, "sips:"+g.user0()+"@"+n+":5061")
		}
	}
	miss = []string{"sip:nobody@other.invalid", "sip:other.invalid", "urn:service:unrelated", "tel:+19995550000", "sip:zed@nowhere.invalid:5060;transport=udp"}
	// near misses: one component off a configured name. Whether they match (names are also unanchored patterns) is
	// decided by the reference, not here.
	for _, n := range strings.Split(names, ",") {
		n = strings.TrimSpace(n)
		switch {
		case strings.HasPrefix(n, "^.*@svc"):
			miss = append(miss, fmt.Sprintf("sip:%s@svc%d.example.org", g.user0(), g.intn(100)), "sip:"+g.user0()+"@svcx.example.com", fmt.Sprintf("sip:svc%d.example.com", g.intn(100)))
		case strings.HasPrefix(n, "^sos"):
			miss = append(miss, "sip:sos."+g.alnumL(3, 6)+"@corp.testx", "sip:sos."+g.alnumL(2, 4)+"7@corp.test", "sip:xsos."+g.alnumL(3, 6)+"@corp.test", "sip:sos@corp.test")
		case strings.HasPrefix(n, "urn:"), strings.HasPrefix(n, "tel:"):
			miss = append(miss, n+"0", n[:len(n)-1])
		case strings.Contains(n, "@"):
			at := strings.Index(n, "@")
			miss = append(miss, "sip:"+g.user0()+"q@"+n[at+1:], "sip:"+n[:at]+"@sub."+n[at+1:], "sip:"+n[at+1:], "sip:"+n[:at]+"@"+n[at+1:]+".invalid")
		default:
			miss = append(miss, "sip:"+n+".invalid", "sip:"+g.user0()+"@"+n[1:], "sip:"+g.user0()+"@sub."+n)
		}
	}
	return
}

func (g *gen) user0() string { return strings.ToLower(g.alnum(1, 8)) }
func (g *gen) alnumL(lo, hi int) string {
	s := g.alnum(lo, hi)
	b := []byte(strings.ToLower(s))
	for i := range b {
		if b[i] < 'a' || b[i] > 'z' {
			b[i] = 'a' + b[i]%26
		}
	}
	return string(b)
}

// listenerURIHost renders how a Route / Request-URI may designate listener l.
func listenerDesignations(c *Cfg, li int, transport string) []string {
	l := c.Listens[li]
	port := l.port(transport)
	var out []string
	hp := func(h string) {
		out = append(out, h+":"+strconv.Itoa(port))
		if port == 5060 {
			out = append(out, h)
		}
	}
	hp(l.Addr)
	for _, h := range append(append([]HostCfg{}, c.Hosts...), c.GlobalHosts...) {
		if h.IP == l.Addr {
			hp(h.Name)
		}
	}
	return out
}

func (g *gen) routeEntryFor(hostport string, extra bool) string {
	uri := "sip:" + hostport
	if g.chance(30) {
		uri = "sip:" + g.user0() + "@" + hostport
		if g.chance(15) {
			uri = "sip:" + g.user0() + ":" + g.alnum(1, 6) + "@" + hostport // user-info with a password
		}
	}
	params := ";lr"
	if extra {
		params = g.uriParams(2, true) + ";lr" + g.uriParams(1, true)
	}
	s := "<" + uri + params + ">"
	if extra && g.chance(30) {
		s = g.displayNameOf(false) + s
	}
	if extra && g.chance(40) {
		s += ";" + g.alnum(1, 5) + "=" + g.alnum(1, 5)
		if g.chance(30) {
			s += ";" + g.alnum(1, 4)
		}
		if g.chance(12) {
			// a quoted value with a blank inside, now and then next to a ';' (quoted: not a separator)
			s += ";" + g.alnum(1, 4) + "=\"" + g.alnum(1, 3) + g.pick(" ", " ", "; ", " ;") + g.alnum(1, 3) + "\""
		}
	}
	return s
}

type relayForce struct {
	li      int
	proto   string
	srcIP   string
	srcPort int
	conn    string
}

type relayGenOpts struct {
	force     *relayForce
	focus     string
	nMsgs     int
	rich      bool // full-width extension headers and bodies (C01)
	maxVal    int
	maxBody   int
	responses bool
}

// genRequest draws one request for listener li.
func genRequest(g *gen, c *Cfg, o *relayGenOpts, learnedHosts []string) Op {
	id := g.nextID()
	li := g.intn(len(c.Listens))
	l := c.Listens[li]
	proto := "udp"
	if l.UDP == 0 || (l.TCP != 0 && g.chance(35)) {
		proto = "tcp"
	}
	srcIP := topo.uas[g.intn(len(topo.uas))]
	srcPort := g.pick2(5060, 5060, 5090, 40000+g.intn(1000), 65535, 32768, 1024+g.intn(100))
	if g.chance(12) || o.focus == "C07" && g.chance(25) {
		// two sources whose address and port give the same digits when written one after the other
		if g.chance(50) {
			srcIP, srcPort = "10.1.0.1", 25060
		} else {
			srcIP, srcPort = "10.1.0.12", 5060
		}
	}
	if proto == "udp" && g.chance(7) {
		// a request that one of the service's own backends originates, from its configured address and port
		var bs []string
		for _, x := range c.Listens {
			for _, b := range x.Backends {
				if strings.HasPrefix(b, "udp://") && net.ParseIP(udpHost(b[6:])) != nil {
					bs = append(bs, b[6:])
				}
			}
		}
		if len(bs) > 0 {
			a := udpAddr(bs[g.intn(len(bs))])
			srcIP, srcPort = a.IP.String(), a.Port
		}
	}
	if o.force != nil {
		li, proto, srcIP, srcPort = o.force.li, o.force.proto, o.force.srcIP, o.force.srcPort
		l = c.Listens[li]
	}
	keep := c.keepNextHop()
	_ = keep

	// Route set
	var routes []string
	routeCls := "none"
	nextTrans := ""
	rc := g.intn(10)
	if o.focus == "C13" || o.focus == "C06" {
		rc = 3 + g.intn(7)
	}
	if o.focus == "followup" {
		rc = 0
	}
	own := listenerDesignations(c, li, proto)
	mkNext := func() string {
		hop := topo.hops[g.intn(len(topo.hops))]
		if len(learnedHosts) > 0 && ((o.focus == "C06" || o.focus == "C17") && g.chance(50) || g.chance(12)) {
			hop = learnedHosts[g.intn(len(learnedHosts))]
		} else if g.chance(25) {
			for _, h := range c.Hosts {
				if strings.HasPrefix(h.Name, "nh") && g.chance(50) {
					hop = h.Name
				}
			}
		} else if g.chance(10) {
			hop = topo.unknown[g.intn(len(topo.unknown))]
		}
		hp := hop
		if g.chance(50) {
			hp += ":" + g.pick("5060", "5080", "5080", "45060")
		}
		e := "<sip:" + hp
		switch g.intn(8) {
		case 0, 1:
			e += ";transport=tcp"
			nextTrans = "tcp"
		case 2:
			e += ";transport=" + g.pick("tls", "sctp", "ws")
			nextTrans = "unsupported"
		case 3:
			e += ";transport=" + g.pick("UDP", "udp", "TCP")
		}
		e += ";lr>"
		if g.chance(20) {
			e += ";" + g.alnum(1, 4) + "=" + g.alnum(1, 4)
		}
		return e
	}
	switch {
	case rc < 3:
	case rc < 5:
		routeCls = "own"
		routes = append(routes, g.routeEntryFor(own[g.intn(len(own))], g.chance(40)))
	case rc < 8:
		routeCls = "own+next"
		routes = append(routes, g.routeEntryFor(own[g.intn(len(own))], g.chance(40)))
		if g.chance(15) {
			// the listener twice (e.g. a spiral): only the first entry is consumed per pass
			routeCls = "own+own+next"
			routes = append(routes, g.routeEntryFor(own[g.intn(len(own))], g.chance(40)))
		}
		routes = append(routes, mkNext())
	case rc < 9:
		routeCls = "next"
		routes = append(routes, mkNext())
	default:
		routeCls = "nearmiss"
		// right host wrong port, right port foreign host, another listener
		nm := g.intn(4)
		if l.UDP != 0 && l.TCP != 0 && l.UDP != l.TCP && g.chance(40) {
			nm = 4
		}
		switch nm {
		case 4:
			// right host, the port of the listen entry's OTHER transport: not the port the request was received on
			routes = append(routes, "<sip:"+l.Addr+":"+strconv.Itoa(l.UDP+l.TCP-l.port(proto))+";lr>")
		case 3:
			// right port, a foreign name that no table and no name server knows (where the request goes is not
			// prescribed; the entry is not the proxy's own, and the failed lookup must not disturb what follows)
			routes = append(routes, "<sip:"+g.pick("gone.hosts.invalid", "nx.proxy.test")+":"+strconv.Itoa(l.port(proto))+";lr>")
		case 0:
			off := 1000
			if l.port(proto)+off > 65535 {
				off = -1000
			}
			routes = append(routes, "<sip:"+l.Addr+":"+strconv.Itoa(l.port(proto)+off)+";lr>")
		case 1:
			routes = append(routes, "<sip:"+topo.hops[0]+":"+strconv.Itoa(l.port(proto))+";lr>")
		default:
			other := c.Listens[(li+1)%len(c.Listens)]
			op := other.UDP
			if op == 0 {
				op = other.TCP
			}
			if other.Addr != l.Addr {
				routes = append(routes, "<sip:"+other.Addr+":"+strconv.Itoa(op)+";lr>")
			} else {
				routes = append(routes, "<sip:"+topo.hops[1]+";lr>")
			}
		}
		if g.chance(50) {
			routes = append(routes, mkNext())
		}
	}
	if len(routes) > 0 {
		extra := g.intn(4)
		for i := 0; i < extra && len(routes) < 6; i++ {
			routes = append(routes, g.routeEntryFor(g.pick("10.4.0.1", "10.4.0.2:5070", "far.hops.test"), g.chance(50)))
		}
	}

	// Request-URI
	match, miss := svcURIs(g, c.Name)
	var ruri string
	switch g.intn(6) {
	case 0, 1, 2:
		ruri = match[g.intn(len(match))]
	case 3:
		ruri = "sip:" + g.user0() + "@" + l.Addr + ":" + strconv.Itoa(l.port(proto))
		if l.port(proto) == 5060 && g.chance(50) {
			ruri = "sip:" + l.Addr
		}
	default:
		ruri = miss[g.intn(len(miss))]
	}
	if strings.HasPrefix(ruri, "sip") && o.rich && g.chance(40) && !strings.Contains(ruri, ";") {
		ruri += g.uriParams(3, true)
	}

	// To host: decides static routing
	toHost := g.pick("other.invalid", "example.com", "a.example.com", "b.example.com", "aXexample.com", "corp.test", "b.corp.test", "x.test", "default", "example.org",
		"example.com.au", "a.example.community", "b.corp.testing", "xexample.com", // hosts that extend a configured destination at either end
		"10.9.8.7", "10.9.1.1", "10.8.8.7", "10.98.8.7") // IPv4 literals: one that may be an entry, ones only patterns cover, one that a '.' taken for "any character" would cover
	toUser := g.user0()
	fromURI := "sip:" + g.user0() + "@" + g.pick("ua.example.org", "10.1.0.1", "caller.test")
	toURI := "sip:" + toUser + "@" + toHost
	if g.chance(10) {
		toURI = "tel:+1555" + strconv.Itoa(1000+g.intn(9000))
		if g.chance(40) {
			toURI = g.pick(toURI+";isub=12%2334", "urn:service:caf%C3%A9", "urn:uuid:00%41-"+g.alnum(2, 6)) // not a SIP URI, with escapes
		}
	}
	if g.chance(6) {
		fromURI = g.pick("tel:+1555"+strconv.Itoa(1000+g.intn(9000))+";isub=9%2a", "urn:service:kiosk%20"+g.alnum(1, 4))
	}
	if g.chance(10) {
		toURI += ":5060"
	}
	method := g.method()
	fromTag := g.tagValue()
	toTag := ""
	if method != "INVITE" && method != "SUBSCRIBE" && g.chance(50) {
		toTag = g.tagValue()
	}
	decorate := o.rich
	core := []sipwire.Header{
		{Name: g.pick("From", "f", "FROM", "from"), Value: g.fromTo(fromURI, fromTag, decorate)},
		{Name: g.pick("To", "t", "TO", "to"), Value: g.fromTo(toURI, toTag, decorate)},
		{Name: g.pick("Call-ID", "i", "call-id", "CALL-ID"), Value: "cid-" + id + "@" + srcIP},
		{Name: g.pick("CSeq", "cseq", "CSEQ"), Value: strconv.Itoa(1+g.intn(100000)) + " " + method},
		{Name: "X-Sim-Id", Value: id},
	}
	if g.chance(10) {
		core = append(core, sipwire.Header{Name: "Expires", Value: strconv.Itoa(g.intn(7200))})
	}
	if method == "NOTIFY" && g.chance(70) {
		// a NOTIFY of a subscription nobody here knows (unsolicited, expired, from before a restart)
		core = append(core, sipwire.Header{Name: g.pick("Subscription-State", "subscription-state"), Value: g.pick("active", "active;expires=600", "terminated", "pending", "terminated;reason=timeout")})
	}
	// Via stack
	nv := 1 + g.intn(3)
	if o.focus == "C06" || o.focus == "C02" {
		nv = 1 + g.intn(6)
	}
	var vias []string
	var viaHostList []string
	for i := 0; i < nv; i++ {
		host := srcIP
		port := srcPort
		if i > 0 || g.chance(30) {
			host = g.pick("10.1.9.9", "192.0.2.7", "ua"+strconv.Itoa(g.intn(9))+".clients.test", topo.uas[g.intn(len(topo.uas))])
			port = g.pick2(0, 5060, 5070, 49152+g.intn(100))
		}
		params := ";branch=z9hG4bK" + g.alnum(6, 14)
		if g.chance(4) {
			params = g.pick("", ";branch="+g.alnum(4, 8)) // an RFC 2543 client: no branch, or one without the magic cookie
		}
		if i == 0 {
			switch g.intn(5) {
			case 0:
				params += ";rport"
			case 1:
				params = ";rport" + params
			case 2:
				params += ";rport=" + strconv.Itoa(g.pick2(1000+g.intn(5000), 65535, 0, 40000+g.intn(20000))) // spoofed
			}
			if g.chance(15) {
				params += ";received=" + g.pick("192.0.2.99", "10.66.6.6") // spoofed
			} else if g.chance(8) {
				// spoofed under another spelling of the parameter name: not the parameter the proxy stamps and reads
				params += ";" + g.pick("Received", "RECEIVED", "reCeived") + "=" + g.pick("192.0.2.99", "10.66.6.6")
				if g.chance(40) {
					params += ";" + g.pick("Rport", "RPORT") + "=" + strconv.Itoa(1000+g.intn(5000))
				}
			}
		} else if g.chance(30) {
			params += ";received=" + topo.uas[g.intn(len(topo.uas))]
			if g.chance(50) {
				params += ";rport=" + strconv.Itoa(5000+g.intn(100))
			}
		}
		if g.chance(20) {
			params += ";" + g.alnum(1, 5) + "=" + g.paramValue()
		}
		tr := strings.ToUpper(proto)
		if i > 0 {
			tr = g.pick("UDP", "TCP", "UDP", "TLS")
		}
		if i > 0 && g.chance(4) {
			vias = append(vias, viaEntryZ(tr, host, port, params))
		} else {
			vias = append(vias, viaEntry(tr, host, port, params))
		}
		if net.ParseIP(host) != nil && host != srcIP {
			viaHostList = append(viaHostList, host)
		}
	}
	viaNames := []string{"Via", "v", "VIA", "via", "V"}
	parts := &msgParts{
		Start:   method + " " + ruri + " SIP/2.0",
		Via:     g.layoutList(vias, viaNames, g.intn(3)),
		Route:   g.layoutList(routes, []string{"Route", "ROUTE", "route"}, g.intn(3)),
		Core:    core,
		Shuffle: g.chance(40),
	}
	nrr := 0
	if g.chance(35) {
		nrr = 1 + g.intn(4)
	}
	var rrs []string
	for i := 0; i < nrr; i++ {
		rrs = append(rrs, g.routeEntryFor(g.pick("10.5.0.1", "10.5.0.2:5066", "edge.rr.test"), g.chance(40)))
	}
	parts.RR = g.layoutList(rrs, []string{"Record-Route", "record-route", "RECORD-ROUTE"}, g.intn(3))
	if o.rich {
		parts.Ext = g.extHeaders(40, o.maxVal)
		parts.Body = g.body(id, o.maxBody)
	} else {
		parts.Ext = g.extHeaders(4, 60)
		if g.chance(30) {
			parts.Body = g.body(id, 300)
		}
	}
	parts.CLName = "Content-Length"
	if o.rich && g.chance(25) {
		parts.CLName = g.pick("l", "content-length", "CONTENT-LENGTH", "Content-length", "L")
	}
	if g.chance(5) {
		parts.CLZeros = g.rng(1, 3) // 1*DIGIT: leading zeros are legal and the number stays decimal
	}
	data := g.assemble(parts)
	if proto == "udp" && len(data) > 65000 {
		// stay within one datagram
		parts.Body = parts.Body[:len(parts.Body)/4]
		parts.Ext = parts.Ext[:len(parts.Ext)/4]
		data = g.assemble(parts)
	}
	op := Op{Kind: "msg", ID: id, Proto: proto, SrcIP: srcIP, SrcPort: srcPort, Listen: li, Data: data, Settle: true,
		S: map[string]string{"route": routeCls, "next": nextTrans, "viaHosts": strings.Join(viaHostList, ",")}}
	if proto == "tcp" {
		op.Conn = fmt.Sprintf("c-%s-%d-%d", srcIP, srcPort, li)
		if g.chance(30) {
			op.Conn += "-" + id // a connection of its own
		}
		if o.force != nil {
			op.Conn = o.force.conn
		}
	}
	return op
}

func (g *gen) pick2(xs ...int) int { return xs[g.intn(len(xs))] }

// genResponse draws a response injected at listener li (C02a).
func genResponse(g *gen, c *Cfg, o *relayGenOpts) Op {
	id := g.nextID()
	li := g.intn(len(c.Listens))
	l := c.Listens[li]
	proto := "udp"
	if l.UDP == 0 || (l.TCP != 0 && g.chance(30)) {
		proto = "tcp"
	}
	srcIP := g.pick("10.2.0.1", "10.2.0.2", "10.3.0.1", "10.6.0.1")
	srcPort := g.pick2(5070, 5060, 5080)
	nv := 1 + g.intn(6)
	var vias []string
	towardsBackend := false
	for i := 0; i < nv; i++ {
		var host string
		var port int
		if i == 0 {
			host, port = l.Addr, l.port(proto)
			if g.chance(20) {
				host, port = "10.7.7.7", 5060 // not even ours: still popped
			}
		} else {
			host = g.pick(topo.uas[g.intn(len(topo.uas))], topo.hops[g.intn(len(topo.hops))], "nh1.hops.test", "nh2.hops.test", "nh3.Hops.Test")
			port = g.pick2(0, 5060, 5090, 5080, 40123, 65535)
			if i == 1 && len(l.Backends) > 0 && g.chance(12) {
				// the answer travels towards one of the listen entry's own backends (it answers a request the backend sent)
				towardsBackend = true
				ba := udpAddr(strings.SplitN(l.Backends[g.intn(len(l.Backends))], "://", 2)[1])
				host, port = ba.IP.String(), ba.Port
			}
		}
		params := ";branch=z9hG4bK" + g.alnum(6, 12)
		tr := g.pick("UDP", "UDP", "UDP", "TCP")
		if i == 1 {
			switch g.intn(10) {
			case 0:
				tr = g.pick("TLS", "SCTP")
			}
			switch g.intn(6) {
			case 0:
				params += ";received=" + topo.uas[g.intn(len(topo.uas))]
			case 1:
				params += ";received=" + topo.uas[g.intn(len(topo.uas))] + ";rport=" + strconv.Itoa(g.pick2(5060, 5090, 40123, 65535))
			case 2:
				params += ";rport;received=" + topo.uas[g.intn(len(topo.uas))]
			case 3:
				params += ";rport"
			case 4:
				params += ";rport=" + strconv.Itoa(g.pick2(5060, 5090, 40123, 65535)) // rport without received
			}
		}
		if g.chance(20) {
			params += ";" + g.alnum(1, 5) + "=" + g.paramValue()
		}
		if i > 0 && g.chance(4) {
			vias = append(vias, viaEntryZ(tr, host, port, params))
		} else {
			vias = append(vias, viaEntry(tr, host, port, params))
		}
	}
	status := 100 + g.intn(600)
	if g.chance(50) {
		status = g.pick2(100, 180, 183, 200, 202, 302, 404, 486, 500, 603)
	}
	method := g.method()
	if towardsBackend && g.chance(60) {
		method = g.pick("SUBSCRIBE", "INVITE", "NOTIFY")
	}
	respToTag := g.tagValue()
	if g.chance(15) || status == 100 && g.chance(60) {
		respToTag = "" // an answer without a To tag (100 Trying, or an element that adds none)
	}
	core := []sipwire.Header{
		{Name: g.pick("From", "f"), Value: g.fromTo("sip:"+g.user0()+"@caller.test", g.tagValue(), o.rich)},
		{Name: g.pick("To", "t"), Value: g.fromTo("sip:"+g.user0()+"@callee.test", respToTag, o.rich)},
		{Name: g.pick("Call-ID", "i"), Value: "cid-" + id},
		{Name: "CSeq", Value: strconv.Itoa(1+g.intn(1000)) + " " + method},
		{Name: "X-Sim-Id", Value: id},
	}
	parts := &msgParts{
		Start:   fmt.Sprintf("SIP/2.0 %d %s", status, g.reason(status)),
		Via:     g.layoutList(vias, []string{"Via", "v", "VIA", "via"}, g.intn(3)),
		Core:    core,
		Shuffle: g.chance(30),
	}
	if o.rich {
		parts.Ext = g.extHeaders(40, o.maxVal)
		parts.Body = g.body(id, o.maxBody)
	} else {
		parts.Ext = g.extHeaders(3, 40)
	}
	parts.CLName = "Content-Length"
	if o.rich && g.chance(25) {
		parts.CLName = g.pick("l", "content-length", "CONTENT-LENGTH")
	}
	if g.chance(5) {
		parts.CLZeros = g.rng(1, 3)
	}
	data := g.assemble(parts)
	if proto == "udp" && len(data) > 65000 {
		parts.Body = nil
		parts.Ext = parts.Ext[:len(parts.Ext)/4]
		data = g.assemble(parts)
	}
	op := Op{Kind: "msg", ID: id, Proto: proto, SrcIP: srcIP, SrcPort: srcPort, Listen: li, Data: data, Settle: true}
	if proto == "tcp" {
		op.Conn = fmt.Sprintf("r-%s-%d-%d", srcIP, srcPort, li)
	}
	return op
}

func genRelayPlan(seed uint64, tier string, focus string) *Plan {
	g := newGen(seed)
	p := &Plan{Sched: g.intn(3), PCTDepth: 1 + g.intn(3)}
	c := genRelayCfg(g, focus)
	p.Cfg = *c
	o := &relayGenOpts{focus: focus, nMsgs: 6 + g.intn(10), maxVal: 16384, maxBody: 60000}
	switch focus {
	case "C01":
		o.rich = true
		o.responses = true
	case "C02":
		o.responses = true
	case "C17":
		o.rich = g.chance(50)
		o.responses = true
	}
	if focus == "C01" && g.chance(25) {
		// pipelined TCP: several requests with bodies back to back on one connection,
		// processed while later bytes are already being read
		for li, l := range p.Cfg.Listens {
			if l.TCP == 0 {
				continue
			}
			o.force = &relayForce{li: li, proto: "tcp", srcIP: topo.uas[g.intn(len(topo.uas))], srcPort: 40000 + g.intn(1000), conn: "pipe"}
			o.maxBody = 3000
			o.maxVal = 400
			n := 4 + g.intn(10)
			for i := 0; i < n; i++ {
				op := genRequest(g, &p.Cfg, o, nil)
				op.Settle = false
				p.Ops = append(p.Ops, op)
			}
			p.Ops[len(p.Ops)-1].Settle = true
			p.Variant = "tcp-pipeline"
			return p
		}
	}
	var learned []string
	var tcpRouted []string
	var hang []Op
	burst := g.chance(45)
	for i := 0; i < o.nMsgs; i++ {
		if o.responses && (focus == "C02" && g.chance(60) || focus != "C02" && g.chance(25)) {
			p.Ops = append(p.Ops, genResponse(g, &p.Cfg, o))
			continue
		}
		if len(tcpRouted) > 0 && g.chance(35) {
			// the far end of a connection the proxy opened sends a request of its own over it
			fo := genRequest(g, &p.Cfg, &relayGenOpts{focus: "followup", maxVal: 200, maxBody: 500}, nil)
			fo.Proto = "tcp"
			fo.Conn = ""
			fo.S["outOf"] = tcpRouted[g.intn(len(tcpRouted))]
			p.Ops = append(p.Ops, fo)
			continue
		}
		if i > 0 && g.chance(3) {
			// connections that stay up for an hour and more: a quiet hour passes, then the traffic goes on over them
			p.Ops[len(p.Ops)-1].Settle = true
			p.Ops = append(p.Ops, Op{Kind: "advance", ID: g.nextID(), Dur: int64(time.Duration(g.rng(3540, 3700)) * time.Second)})
		}
		if g.chance(6) {
			p.Ops = append(p.Ops, Op{Kind: "keepalive", ID: g.nextID(), Listen: g.intn(len(p.Cfg.Listens)), Proto: "udp", SrcIP: topo.uas[g.intn(len(topo.uas))], SrcPort: 5060,
				Data: []byte(g.pick("\r\n\r\n", "\r\n", "\n", " \r\n"))})
		}
		op := genRequest(g, &p.Cfg, o, learned)
		learned = append(learned, op.SrcIP)
		// hosts listed in a Via (any position, any layout) are taught as well
		for _, h := range strings.Split(op.S["viaHosts"], ",") {
			if h != "" {
				learned = append(learned, h)
			}
		}
		if op.S["next"] == "tcp" {
			tcpRouted = append(tcpRouted, op.ID)
		} else if op.S["route"] == "none" || op.S["route"] == "own" {
			// possibly handed to a TCP backend over a connection the proxy dials: the backend may send requests of its
			// own back over that connection (skipped at run time when the relay was not over TCP)
			for _, b := range p.Cfg.Listens[op.Listen].Backends {
				if strings.HasPrefix(b, "tcp://") {
					tcpRouted = append(tcpRouted, op.ID)
					break
				}
			}
		}
		if op.Proto == "tcp" && op.Conn != "" {
			if g.chance(10) {
				// blank-line keep-alives ahead of the message on the stream (one CRLF, or the double CRLF "ping")
				op.S["ka"] = g.pick("\r\n", "\r\n\r\n", "\r\n\r\n\r\n")
			}
			if g.chance(6) {
				// the client hangs up after this message; whatever the proxy keeps for the connection goes with it,
				// and nothing else
				hang = append(hang, Op{Kind: "hangup", ID: g.nextID(), Conn: op.Conn})
			}
		}
		if g.chance(40) {
			op.S["answer"] = g.pick("200", "180,200", "100,200", "404", "183")
			if g.chance(12) {
				// a callee that takes minutes to answer: whatever the proxy keeps for the transaction must survive its sweeps
				if op.I == nil {
					op.I = map[string]int{}
				}
				op.I["answerLateS"] = g.rng(61, 200)
			}
		}
		if burst && g.chance(60) && op.S["answer"] == "" && len(hang) == 0 {
			op.Settle = false // processed concurrently with what follows
		}
		p.Ops = append(p.Ops, op)
		p.Ops = append(p.Ops, hang...)
		hang = nil
		toTCPBackend := false
		if op.S["route"] == "none" || op.S["route"] == "own" {
			for _, b := range p.Cfg.Listens[op.Listen].Backends {
				toTCPBackend = toTCPBackend || strings.HasPrefix(b, "tcp://")
			}
		}
		if op.S["next"] == "tcp" && op.Settle && g.chance(10) {
			// the TCP next hop stops reading for some seconds (busy, swapped out) with little room left in its
			// buffers: the proxy's writes towards it block. What it relays there meanwhile arrives whole, once, in order
			p.Ops = append(p.Ops, Op{Kind: "sink-stall", ID: g.nextID(), S: map[string]string{"outOf": op.ID}, I: map[string]int{"ms": g.pick2(1500, 4500, 9000), "window": g.pick2(0, 100, 700, 3000), "resetAfterMs": g.pick2(0, 0, 0, 200, 1200)}})
			for k, sep := range []string{"_", "~"} {
				if k == 1 && g.chance(50) {
					break
				}
				again := op
				again.ID = strings.Replace(op.ID, "-", sep, 1)
				again.Data = bytes.ReplaceAll(op.Data, []byte(op.ID), []byte(again.ID))
				again.S = map[string]string{}
				for kk, v := range op.S {
					again.S[kk] = v
				}
				again.S["answer"] = ""
				again.I = nil
				again.Settle = k == 1 || g.chance(50)
				p.Ops = append(p.Ops, again)
			}
			p.Ops[len(p.Ops)-1].Settle = true
		} else if (op.S["next"] == "tcp" || toTCPBackend) && op.Settle && g.chance(12) {
			// the TCP next hop takes the request and closes the connection (restart, idle timeout); the same request is
			// then sent again: it must arrive there all the same, on a fresh connection
			p.Ops = append(p.Ops, Op{Kind: "sink-hangup", ID: g.nextID(), S: map[string]string{"outOf": op.ID}})
			again := op
			again.ID = strings.Replace(op.ID, "-", "_", 1) // same length: a body that carries the id keeps its Content-Length
			again.Data = bytes.ReplaceAll(op.Data, []byte(op.ID), []byte(again.ID))
			again.S = map[string]string{}
			for k, v := range op.S {
				again.S[k] = v
			}
			again.S["answer"] = ""
			again.I = nil
			again.Settle = true
			p.Ops = append(p.Ops, again)
			if g.chance(60) {
				// and the far end sends a request of its own back over the connection the proxy has just made anew
				fo := genRequest(g, &p.Cfg, &relayGenOpts{focus: "followup", maxVal: 200, maxBody: 500}, nil)
				fo.Proto = "tcp"
				fo.Conn = ""
				fo.S["outOf"] = again.ID
				p.Ops = append(p.Ops, fo)
			}
		}
	}
	if len(p.Ops) > 0 {
		p.Ops[len(p.Ops)-1].Settle = true
	}
	if g.chance(5) {
		// a transaction in flight while its connection turns an hour old: a request over a TCP connection, just under
		// an hour of silence, another request over the same connection, answered a minute or more later
		for li, l := range p.Cfg.Listens {
			if l.TCP == 0 || len(l.Backends) == 0 {
				continue
			}
			o2 := *o
			o2.force = &relayForce{li: li, proto: "tcp", srcIP: topo.uas[g.intn(len(topo.uas))], srcPort: 41000 + g.intn(500), conn: "old-" + g.nextID()}
			first := genRequest(g, &p.Cfg, &o2, nil)
			p.Ops = append(p.Ops, first)
			p.Ops = append(p.Ops, Op{Kind: "advance", ID: g.nextID(), Dur: int64(time.Duration(g.rng(3530, 3599)) * time.Second)})
			second := genRequest(g, &p.Cfg, &o2, nil)
			second.S["answer"] = g.pick("200", "180,200")
			if second.I == nil {
				second.I = map[string]int{}
			}
			second.I["answerLateS"] = g.rng(61, 200)
			p.Ops = append(p.Ops, second)
			p.Variant = "hour-old-connection"
			break
		}
	}
	return p
}

// ---- execution and oracles ----

// learnedAt: the transport endpoint ("listener" in the statement's words:
// a configured one, or one created for a TCP connection) through which a host
// was learned.
type learnedAt struct {
	listen    int
	transport string
	addr      string // explicit endpoint for connection-level listeners ("" = the configured listener's)
	port      int
}

func (a learnedAt) endpoint(c *Cfg) (string, int) {
	if a.addr != "" {
		return a.addr, a.port
	}
	l := c.Listens[a.listen]
	return l.Addr, l.port(a.transport)
}

type relayState struct {
	w       *World
	c       *Cfg
	entries []routeEntry
	learned map[string][]learnedAt
	seenBranches map[string]string
	routeAnswers map[string]string // To host -> answer (stability, C18)
	emitFrom int
	burstPrior  map[string][]learnedAt // learned before the current burst started
	burstTaught map[string]bool        // hosts taught by messages of the current burst
	done        map[string]*judgedReq  // per request id: what was relayed (for answers and follow-ups)
	connOf      map[string]int         // request id -> inbound connection id (TCP ingress)
	batch       map[*simnet.TCPEnd][]byte
	batchOrder  []*simnet.TCPEnd
}

type judgedReq struct {
	op      *Op
	in      *sipwire.Msg
	em      *Emitted
	extra   int
	srcPort int
}

func newRelayState(w *World, c *Cfg) *relayState {
	return &relayState{w: w, c: c, entries: flattenRoutes(c.Routes), learned: map[string][]learnedAt{},
		seenBranches: map[string]string{}, routeAnswers: map[string]string{}, done: map[string]*judgedReq{}, connOf: map[string]int{},
		burstPrior: map[string][]learnedAt{}, burstTaught: map[string]bool{}}
}

func execRelay(t *testing.T, p *Plan) *Result {
	r := &Result{}
	w := runWorld(t, p, func(w *World) {
		st := newRelayState(w, &p.Cfg)
		var pending []*Op
		for i := range p.Ops {
			op := &p.Ops[i]
			switch op.Kind {
			case "msg":
				if len(pending) == 0 {
					st.startBurst()
				}
				if !st.inject(op) {
					continue
				}
				pending = append(pending, op)
				if op.Settle {
					st.flushBatches()
					if !w.K.Settle(10 * time.Second) {
						break
					}
					st.judgeBurst(pending)
					pending = nil
				}
			case "sink-stall":
				if j := st.done[op.S["outOf"]]; j != nil && j.em != nil && j.em.E.Proto == "tcp" && len(pending) == 0 {
					if end := w.sinkEnds[j.em.E.ConnID]; end != nil && !end.Closed() && !end.IsReset() {
						end.Stall(time.Duration(op.I["ms"])*time.Millisecond, op.I["window"])
						w.stat("probe:next-hop-stalled")
						if ms := op.I["resetAfterMs"]; ms > 0 {
							// ... and its process is killed while it does not read: the write that is blocked on it fails
							// with part of the message gone; the whole message belongs on a new connection
							w.stat("probe:stalled-next-hop-resets")
							w.K.After(time.Duration(ms)*time.Millisecond, "stalled-sink-resets", func() {
								if !end.Closed() && !end.IsReset() {
									end.Reset()
								}
							})
						}
					}
				}
			case "sink-hangup":
				if j := st.done[op.S["outOf"]]; j != nil && j.em != nil && j.em.E.Proto == "tcp" && len(pending) == 0 {
					if end := w.sinkEnds[j.em.E.ConnID]; end != nil && !end.Closed() && !end.IsReset() {
						end.Close()
						w.stat("probe:next-hop-closed-the-connection")
						if !w.K.Settle(10 * time.Second) {
							break
						}
					}
				}
			case "hangup":
				if c := w.conns[op.Conn]; c != nil && !c.Closed() && len(pending) == 0 {
					c.Close()
					w.stat("probe:client-hung-up")
					if !w.K.Settle(10 * time.Second) {
						break
					}
				}
			case "keepalive":
				// a NAT keep-alive: a datagram of nothing but CRLF. Nothing is owed for it (anything emitted for it is
				// unattributable), and it must leave no trace in what follows.
				l := p.Cfg.Listens[op.Listen]
				if l.UDP != 0 {
					w.stat("probe:udp-keepalive-datagram")
					w.N.InjectUDP(udpAddr(hostPort(op.SrcIP, op.SrcPort)), udpAddr(hostPort(l.ip(), l.UDP)), op.Data, time.Duration(op.DelayUs)*time.Microsecond+100*time.Microsecond)
				}
			case "advance":
				w.K.Advance(time.Duration(op.Dur))
			}
			if w.dead() {
				break
			}
		}
		st.flushBatches()
		if !w.dead() && w.K.Settle(10*time.Second) {
			st.judgeBurst(pending)
		}
	})
	finish(w, p, r)
	r.Judged = w.Stats["judged:"+p.Prop]
	r.Class = fmt.Sprintf("L%d/R%d/K%v/%s", len(p.Cfg.Listens), len(p.Cfg.Routes), p.Cfg.keepNextHop(), p.Cfg.Name)
	if len(p.Ops) > 0 {
		op := p.Ops[0]
		s, _ := json.Marshal(map[string]interface{}{"listeners": p.Cfg.Listens, "routes": p.Cfg.Routes, "keepNextHop": p.Cfg.KeepNextHop,
			"first_message": fmt.Sprintf("%s %s:%d -> listener %d: %s", op.Proto, op.SrcIP, op.SrcPort, op.Listen, clip(string(op.Data), 300)), "messages": len(p.Ops)})
		r.Sample = s
	}
	return r
}

func clip(s string, n int) string {
	if len(s) > n {
		return s[:n] + "..."
	}
	return s
}

func (st *relayState) inject(op *Op) bool {
	w := st.w
	l := st.c.Listens[op.Listen]
	st.emitFrom = len(w.N.Emissions)
	delay := time.Duration(op.DelayUs) * time.Microsecond
	if op.I == nil {
		op.I = map[string]int{}
	}
	if outOf := op.S["outOf"]; outOf != "" {
		// the far end of a connection the proxy itself opened sends a request back over it
		j := st.done[outOf]
		if j == nil || j.em == nil || j.em.E.Proto != "tcp" {
			w.stat("skipped:follow-up-without-outbound-connection")
			return false
		}
		end := w.sinkEnds[j.em.E.ConnID]
		if end == nil || end.Closed() || end.IsReset() {
			w.stat("skipped:follow-up-without-outbound-connection")
			return false
		}
		op.Listen = j.op.Listen
		op.SrcIP = end.Local.IP.String()
		op.SrcPort = end.Local.Port
		op.I["srcPort"] = end.Local.Port
		op.I["outbound"] = 1
		st.connOf[op.ID] = end.ID
		w.stat("probe:request-over-outbound-connection")
		end.Write(op.Data)
		return true
	}
	if op.Proto == "udp" {
		from := udpAddr(hostPort(op.SrcIP, op.SrcPort))
		w.N.InjectUDP(from, udpAddr(hostPort(l.ip(), l.UDP)), op.Data, delay+100*time.Microsecond)
		return true
	}
	c, err := w.TCPConnTo(op.Conn, op.SrcIP, op.SrcPort, hostPort(l.ip(), l.TCP))
	if err != nil {
		w.K.Failures = append(w.K.Failures, "harness: cannot connect to listener: "+err.Error())
		return false
	}
	op.I["srcPort"] = c.Local.Port
	st.connOf[op.ID] = c.ID
	if ka := op.S["ka"]; ka != "" {
		if st.batch == nil {
			st.batch = map[*simnet.TCPEnd][]byte{}
		}
		if _, ok := st.batch[c]; !ok {
			st.batchOrder = append(st.batchOrder, c)
		}
		st.batch[c] = append(st.batch[c], ka...)
		st.w.stat("probe:tcp-keepalive-before-message")
	}
	if len(op.Cuts) > 0 {
		c.WriteCuts(op.Data, op.Cuts)
		return true
	}
	// messages of one burst on one connection are pipelined: they arrive
	// together (one segment), at the same instant as the rest of the burst, so
	// that the proxy is still busy with one while the next is being read
	if st.batch == nil {
		st.batch = map[*simnet.TCPEnd][]byte{}
	}
	if _, ok := st.batch[c]; !ok {
		st.batchOrder = append(st.batchOrder, c)
	}
	st.batch[c] = append(st.batch[c], op.Data...)
	if op.Settle {
		st.flushBatches()
	}
	return true
}

func (st *relayState) flushBatches() {
	for _, c := range st.batchOrder {
		if len(st.batch[c]) > 0 {
			c.WriteExact(st.batch[c], 100*time.Microsecond)
		}
	}
	st.batch = nil
	st.batchOrder = nil
}

func (st *relayState) startBurst() {
	st.burstPrior = map[string][]learnedAt{}
	for h, la := range st.learned {
		st.burstPrior[h] = la
	}
	st.burstTaught = map[string]bool{}
}

// judgeBurst judges the messages injected since the last quiescence. All of
// them teach before any is judged; hosts taught within the burst are
// don't-cares for the C06 insertion decision. Then the answers requested by
// the plan are injected and judged (C02 histories, C07 return path).
func (st *relayState) judgeBurst(pending []*Op) {
	w := st.w
	if len(pending) > 1 {
		w.stat("probe:concurrent-burst")
	}
	for _, op := range pending {
		in, _, err := sipwire.Parse(op.Data)
		if err != nil || !in.IsRequest {
			continue
		}
		vias, err := in.Vias()
		if err != nil {
			continue
		}
		st.burstTaught[op.SrcIP] = true
		for _, v := range vias {
			st.burstTaught[v.Host] = true
		}
		if op.I["outbound"] == 1 {
			// the "listener" is the one created for the connection the proxy opened
			if end := w.sinkEnds[st.connOf[op.ID]]; end != nil {
				st.learnAt(learnedAt{op.Listen, "tcp", end.Remote.IP.String(), end.Remote.Port}, op.SrcIP, vias)
			}
		} else {
			st.learn(op.Listen, op.Proto, op.SrcIP, vias)
		}
		for _, e := range st.emissionsOf(op.ID) {
			_, eip, eport := emissionDest(e.E)
			if li, tr := st.c.listenerAt(eip, eport); li >= 0 && tr == e.E.Proto && e.M != nil && e.E.Err == "" {
				if vs, err := e.M.Vias(); err == nil {
					st.learn(li, tr, udpAddr(e.E.Src).IP.String(), vs)
					w.stat("probe:spiral-arrival")
				}
			}
		}
	}
	for _, op := range pending {
		st.judge(op)
	}
	// answers
	var answered []*Op
	var maxLate time.Duration
	for _, op := range pending {
		if op.S["answer"] == "" {
			continue
		}
		j := st.done[op.ID]
		if j == nil || j.em == nil || j.em.M == nil || j.extra != 1 {
			w.stat("skipped:answer-without-proxy-via")
			continue
		}
		if j.em.E.Err != "" {
			w.stat("skipped:relay-lost-to-write-error") // nobody received the request: nobody answers
			continue
		}
		for k, status := range strings.Split(op.S["answer"], ",") {
			code, _ := strconv.Atoi(status)
			// a provisional answer precedes the final one (a provisional that
			// arrives after the final response is outside C12's statement)
			late := time.Duration(op.I["answerLateS"]) * time.Second
			if late > maxLate {
				maxLate = late
			}
			if rop := st.injectAnswer(j, code, late+time.Duration(k)*2*time.Millisecond); rop != nil {
				answered = append(answered, rop)
			}
		}
	}
	if maxLate > 0 {
		w.stat("probe:answer-minutes-late")
	}
	if len(answered) > 0 && w.K.Settle(10*time.Second+maxLate) {
		for _, rop := range answered {
			st.judgeAnswer(rop)
		}
	}
}

// injectAnswer lets the party that received the relayed request answer it the
// way a UAS does: same Via stack, sent to the topmost Via.
func (st *relayState) injectAnswer(j *judgedReq, code int, after time.Duration) *Op {
	w := st.w
	req := j.em.M
	rp := respPlan{status: code, expires: -1}
	if code > 100 {
		rp.toTag = "tt" + strings.ReplaceAll(j.op.ID, "-", "")
	}
	data := buildResponse(req, rp, j.op.ID)
	eproto, eip, eport := emissionDest(j.em.E)
	rop := &Op{Kind: "msg", ID: fmt.Sprintf("%s.r%d", j.op.ID, code), Proto: eproto, SrcIP: eip, SrcPort: eport, Data: data,
		S: map[string]string{"answerTo": j.op.ID}, I: map[string]int{}}
	vias, err := req.Vias()
	if err != nil || len(vias) == 0 {
		return nil
	}
	top := vias[0]
	li, tr := st.c.listenerAt(top.Host, top.EffPort())
	if li < 0 {
		w.stat("skipped:answer-top-via-not-a-listener")
		return nil
	}
	rop.Listen = li
	if eproto == "udp" {
		if tr != "udp" && st.c.Listens[li].UDP != top.EffPort() {
			w.stat("skipped:answer-transport-mismatch")
			return nil
		}
		w.N.InjectUDP(udpAddr(hostPort(eip, eport)), udpAddr(hostPort(top.Host, top.EffPort())), data, after+150*time.Microsecond)
		return rop
	}
	end := w.sinkEnds[j.em.E.ConnID]
	if end == nil || end.Closed() || end.IsReset() {
		w.stat("skipped:answer-connection-gone")
		return nil
	}
	w.K.After(after, "tcp-answer", func() { end.Write(data) })
	return rop
}

// judgeAnswer: the response to a relayed request returns to the hop the
// request came from, carrying exactly the Via stack that hop sent.
func (st *relayState) judgeAnswer(rop *Op) {
	w := st.w
	j := st.done[rop.S["answerTo"]]
	in, _, err := sipwire.Parse(rop.Data)
	if err != nil {
		return
	}
	ems := st.emissionsOf(rop.ID)
	reqOp := j.op
	l := &st.c.Listens[reqOp.Listen]
	st.judged("C02")
	// through which listen entry does the answer return? (the proxy's own Via on the relayed request)
	cross := false
	if vs, err := j.em.M.Vias(); err == nil && len(vs) > 0 {
		if li, _ := st.c.listenerAt(vs[0].Host, vs[0].EffPort()); li >= 0 && li != reqOp.Listen {
			cross = true
			w.stat("probe:answer-returns-through-another-listen-entry")
		}
	}
	sig := fmt.Sprintf("history;ingress=%s;crossListener=%v", reqOp.Proto, cross)
	origVias, _ := j.in.Vias()
	sender := origVias[0]
	_, askedRport := sender.Param("rport")
	// where the hop is: its true source address when the proxy recorded it,
	// else what it wrote
	wantIP, wantPort := sender.Host, sender.EffPort()
	if l.receivedSupport() {
		wantIP = reqOp.SrcIP
		if askedRport {
			wantPort = j.srcPort
		}
	} else {
		if rc, ok := sender.Param("received"); ok && rc.V != "" {
			wantIP = rc.V
			if rp, ok := sender.Param("rport"); ok {
				if n, err := strconv.Atoi(rp.V); err == nil {
					wantPort = n
				}
			}
		}
	}
	if ip, ok := st.c.resolve(wantIP); ok {
		wantIP = ip
	} else if reqOp.Proto != "tcp" {
		w.stat("dontcare:answer-towards-unresolvable-host")
		return
	}
	if _, hasBranch := sender.Param("branch"); !hasBranch && reqOp.Proto == "tcp" {
		// a client without a Via branch (RFC 2543) has no transaction the proxy could tie to its connection: the answer
		// goes by the Via address over whatever connection can be had there - none, if nobody listens at that address
		w.stat("dontcare:answer-to-branchless-tcp-request")
		return
	}
	if len(ems) != 1 {
		st.v("C02", "answer-not-relayed-exactly-once", rop.ID, sig+fmt.Sprintf(";n=%d", len(ems)), "the answer to relayed request %s (arrived over %s from %s:%d) was relayed %d time(s)", reqOp.ID, reqOp.Proto, reqOp.SrcIP, j.srcPort, len(ems))
		if len(ems) == 0 {
			if l.receivedSupport() && !cross {
				// C07: "consequently the response travels back to the packet's true source"; the cross-listen-entry
				// case is the open finding KF-C02-1 and is left to C02
				st.judged("C07")
				st.v("C07", "answer-never-reached-true-source", rop.ID, fmt.Sprintf("ingress=%s;rport=%v", reqOp.Proto, askedRport), "the answer to %s was not relayed at all; the request's true source is %s:%d (arrived over %s)", reqOp.ID, reqOp.SrcIP, j.srcPort, reqOp.Proto)
			}
			return
		}
	}
	e := ems[0]
	eproto, eip, eport := emissionDest(e.E)
	sameConn := reqOp.Proto == "tcp" && e.E.Proto == "tcp" && e.E.ConnID == st.connOf[reqOp.ID]
	st.judged("C07")
	if reqOp.Proto == "tcp" {
		st.judged("C12")
		if !sameConn && l.receivedSupport() && !cross && (eip != reqOp.SrcIP || askedRport && eport != j.srcPort) {
			st.v("C07", "answer-not-to-true-source", rop.ID, fmt.Sprintf("rport=%v", askedRport), "the answer to %s went to %s:%d, the request's true source is %s:%d (rport requested: %v)", reqOp.ID, eip, eport, reqOp.SrcIP, j.srcPort, askedRport)
		}
		if !sameConn {
			// the inbound connection is alive (nothing closed it): the answer belongs there
			st.v("C12", "answer-not-on-request-connection", rop.ID, fmt.Sprintf("crossListener=%v", cross), "request %s arrived on connection %d; its answer was written to %s/%s (connection %d)", reqOp.ID, st.connOf[reqOp.ID], eproto, e.E.Dst, e.E.ConnID)
		}
	} else if eproto != strings.ToLower(sender.Transport) || eip != wantIP || eport != wantPort {
		st.v("C02", "answer-wrong-destination", rop.ID, sig, "the answer to %s went to %s/%s:%d; the request came from %s:%d with Via %q (received-support %v): expected %s:%d", reqOp.ID, eproto, eip, eport, reqOp.SrcIP, j.srcPort, sender.Raw, l.receivedSupport(), wantIP, wantPort)
		if l.receivedSupport() {
			st.v("C07", "answer-not-to-true-source", rop.ID, fmt.Sprintf("rport=%v", askedRport), "the answer to %s went to %s:%d, the request's true source is %s:%d (rport requested: %v)", reqOp.ID, eip, eport, reqOp.SrcIP, j.srcPort, askedRport)
		}
	}
	if e.M == nil {
		return
	}
	outVias, err := e.M.Vias()
	if err != nil {
		st.v("C02", "via-undecodable", rop.ID, sig, "relayed Via does not decode: %v", err)
		return
	}
	if len(outVias) != len(origVias) {
		st.v("C02", "answer-via-stack", rop.ID, sig, "hop sent %d Via entries on %s, the answer came back with %d", len(origVias), reqOp.ID, len(outVias))
	} else {
		for i := range origVias {
			a, b := origVias[i], outVias[i]
			if i == 0 {
				a, b = stripStamp(a), stripStamp(b)
			}
			if !viaEqual(a, b) {
				st.v("C02", "answer-via-stack", rop.ID, sig, "Via entry %d sent as %q came back as %q", i, origVias[i].Raw, outVias[i].Raw)
				break
			}
		}
	}
	st.judgeContent(rop, in, e.M)
	_ = w
}

func (st *relayState) emissionsOf(id string) []*Emitted {
	var out []*Emitted
	for _, e := range st.w.decodeEmissions(0) {
		if e.ID == id {
			out = append(out, e)
		}
	}
	return out
}

// prop-tagged violation
func (st *relayState) v(prop, rule, id, sig, format string, a ...interface{}) {
	st.w.Viol = append(st.w.Viol, Violation{Prop: prop, Rule: rule, Msg: id, Sig: sig, Detail: fmt.Sprintf(format, a...)})
}

func (st *relayState) judged(prop string) { st.w.Stats["judged:"+prop]++ }

func (st *relayState) judge(op *Op) {
	w := st.w
	in, rest, err := sipwire.Parse(op.Data)
	if err != nil || len(rest) > 0 {
		w.K.Failures = append(w.K.Failures, fmt.Sprintf("harness: generated message does not parse: %v", err))
		return
	}
	ems := st.emissionsOf(op.ID)
	// unattributable emissions are judged once, by whoever sees them first
	for _, e := range w.decodeEmissions(0) {
		if e.ID == "" || e.Err != nil {
			if len(strings.Trim(string(e.E.Data), "\r\n")) == 0 {
				continue // blank lines only (a keep-alive answer on a stream): not a relayed message
			}
			key := fmt.Sprintf("unattrib-%d", e.E.Seq)
			if w.Stats[key] == 0 {
				w.Stats[key] = 1
				st.v("C01", "unattributable-emission", "", "", "emission #%d to %s is not a decodable copy of any injected message: %v\n%s", e.E.Seq, e.E.Dst, e.Err, clip(string(e.E.Data), 300))
			}
		}
	}
	if *fDumpMsg == op.ID {
		fmt.Printf("=== INPUT %s %s %s:%d -> listener %d\n%q\n", op.ID, op.Proto, op.SrcIP, op.SrcPort, op.Listen, op.Data)
		for _, e := range ems {
			fmt.Printf("=== EMISSION #%d %s %s -> %s err=%v\n%q\n", e.E.Seq, e.E.Proto, e.E.Src, e.E.Dst, e.Err, e.E.Data)
		}
	}
	srcPort := op.SrcPort
	if op.Proto == "tcp" && op.I != nil {
		srcPort = op.I["srcPort"]
	}
	if in.IsRequest {
		st.judgeRequest(op, in, ems, srcPort)
	} else {
		st.judgeResponse(op, in, ems)
	}
}

// destination of an emission as (proto, ip, port)
func emissionDest(e *simnet.Emission) (string, string, int) {
	a := udpAddr(e.Dst)
	return e.Proto, a.IP.String(), a.Port
}

func (st *relayState) backendAddrs(li int) []string {
	var out []string
	for _, b := range st.c.Listens[li].Backends {
		i := strings.Index(b, "://")
		out = append(out, b[:i]+"|"+b[i+3:])
	}
	return out
}

func (st *relayState) judgeRequest(op *Op, in *sipwire.Msg, ems []*Emitted, srcPort int) {
	c := st.c
	l := &c.Listens[op.Listen]
	id := op.ID
	routes, rerr := in.NameAddrs("route")
	inVias, verr := in.Vias()
	if rerr != nil || verr != nil {
		st.w.K.Failures = append(st.w.K.Failures, "harness: generated routing headers do not parse")
		return
	}
	prior := st.burstPrior
	if prior == nil {
		prior = map[string][]learnedAt{}
	}
	// --- C13: is the first Route entry the receiving listener? ---
	consumed := false
	if len(routes) > 0 {
		r0 := routes[0]
		if r0.Scheme == "sip" || r0.Scheme == "sips" {
			port := r0.Port
			if port == 0 {
				port = 5060
			}
			if port == l.port(op.Proto) {
				if r0.Host == l.Addr {
					consumed = true
				} else if ip, ok := c.resolve(r0.Host); ok && ip == l.Addr {
					consumed = true
				}
			}
		}
	}
	remaining := routes
	if consumed {
		remaining = routes[1:]
	}
	// --- C03: next hop by precedence ---
	type dest struct {
		class   string
		proto   string
		hosts   []string // admissible "ip:port"
		unsupp  bool
		unknown bool // next-hop host not resolvable by the tables: don't-care destination
		hopHost string
		hopHosts []string // static class: next-hop host text per admissible entry (parallel to hosts)
		ambiguousHop bool
	}
	var d dest
	keep := c.keepNextHop()
	wantRoutes := remaining
	toVals := in.Get("to")
	toHost := ""
	if len(toVals) > 0 {
		if na, err := sipwire.ParseNameAddr(toVals[0]); err == nil && (na.Scheme == "sip" || na.Scheme == "sips") {
			toHost = na.Host
		}
	}
	switch {
	case len(remaining) > 0:
		nh := remaining[0]
		d.class = "route"
		port := nh.Port
		tr := routeTransport(nh)
		if port == 0 {
			port = 5060
			if tr == "tls" {
				port = 5061
			}
		}
		d.proto = tr
		d.hopHost = nh.Host
		d.unsupp = !supportedTransport(tr)
		if ip, ok := c.resolve(nh.Host); ok {
			d.hosts = []string{hostPort(ip, port)}
		} else {
			d.unknown = true
		}
		if !keep {
			wantRoutes = remaining[1:]
		}
	default:
		class, allowed := refStaticRoute(st.entries, toHost)
		if toHost != "" && class != "none" {
			d.class = "static"
			protos := map[string]bool{}
			for _, a := range allowed {
				protos[strings.ToLower(a.Proto)] = true
				if ip, ok := c.resolve(a.Host); ok {
					d.hosts = append(d.hosts, strings.ToLower(a.Proto)+"|"+hostPort(ip, a.Port))
					d.hopHosts = append(d.hopHosts, a.Host)
				} else {
					d.unknown = true
				}
				d.hopHost = a.Host
			}
			if len(protos) == 1 {
				for p := range protos {
					d.proto = p
					d.unsupp = !supportedTransport(p)
				}
			} else {
				d.proto = "any"
			}
		} else if op.I["outbound"] == 1 && !refServiceMatch(c.Name, in.URI) && st.ruriIsListener(in.URI, l, op.Proto) {
			// over a connection the proxy opened itself "the listener's own port" is not defined
			st.w.stat("dontcare:listener-address-over-outbound-connection")
			return
		} else if refServiceMatch(c.Name, in.URI) || st.ruriIsListener(in.URI, l, op.Proto) {
			d.class = "backend"
		} else {
			d.class = "drop"
		}
	}
	st.w.stat("class:" + d.class)

	// --- judge destination (C03) ---
	st.judged("C03")
	sig := "class=" + d.class
	switch {
	case d.class == "drop" || d.unsupp:
		if len(ems) != 0 {
			st.v("C03", "emitted-but-should-drop", id, sig, "request of class %s (unsupported transport=%v) was emitted %d time(s), first to %s/%s", d.class, d.unsupp, len(ems), ems[0].E.Proto, ems[0].E.Dst)
		}
		return
	case d.class == "backend" && len(l.Backends) == 0:
		if len(ems) != 0 {
			st.v("C03", "emitted-without-backend", id, sig, "listener %d has no backend but the request was emitted to %s", op.Listen, ems[0].E.Dst)
		}
		return
	case d.unknown:
		st.w.stat("dontcare:unresolvable-next-hop")
		return
	}
	if len(ems) > 1 && st.destIsProxy(d.hosts) {
		// the request was sent to one of the proxy's own listeners and came
		// back as a new arrival: only the first emission belongs to this one
		st.w.stat("dontcare:spiral-later-emissions")
		ems = ems[:1]
	}
	if len(ems) == 0 && d.class == "static" && d.proto == "any" {
		// several wildcard entries match, one of them with an unsupported transport
		st.w.stat("dontcare:wildcard-overlap-with-unsupported-transport")
		return
	}
	if len(ems) != 1 {
		if len(ems) == 0 && d.proto == "tcp" && d.class != "backend" && !st.hasSink(d.hosts) {
			st.w.stat("dontcare:tcp-destination-without-listener")
			return
		}
		dsts := ""
		for _, e := range ems {
			dsts += e.E.Proto + "/" + e.E.Dst + " "
		}
		st.v("C03", "not-exactly-one-emission", id, sig+fmt.Sprintf(";n=%d", len(ems)), "request of class %s expected at exactly one destination %v/%v, emitted %d time(s): %s", d.class, d.proto, d.hosts, len(ems), dsts)
		if len(ems) == 0 {
			if consumed {
				// C13: the own entry "is consumed before routing" - routing then goes on with what remains. A request
				// whose first Route entry designates the receiving listener and that is relayed nowhere although
				// what remains names a reachable destination was not handled that way.
				st.judged("C13")
				st.v("C13", "own-entry-not-consumed-request-lost", id, fmt.Sprintf("class=%s;keep=%v", d.class, keep), "the first Route entry designates the receiving listener and what remains routes the request (class %s) to %v/%v, but it was relayed nowhere\nreceived: %v", d.class, d.proto, d.hosts, in.List("route"))
			}
			return
		}
	}
	e := ems[0]
	eproto, eip, eport := emissionDest(e.E)
	got := hostPort(eip, eport)
	if op.Proto == "tcp" && eproto == "tcp" && e.E.ConnID == st.connOf[op.ID] && d.class != "backend" {
		// The request was written back on the connection it arrived on. That is the
		// registered way to the address its sender advertises (Via sent-by / received, rport);
		// when the chosen next hop IS that address the statement does not say which
		// connection to it must be used.
		sender := inVias[0]
		host, port := sender.Host, sender.EffPort()
		if l.receivedSupport() {
			host = op.SrcIP
			if _, ok := sender.Param("rport"); ok {
				port = srcPort
			}
		} else if rc, ok := sender.Param("received"); ok && rc.V != "" {
			host = rc.V
			if rp, ok := sender.Param("rport"); ok {
				if n, err := strconv.Atoi(rp.V); err == nil {
					port = n
				}
			}
		}
		if ip, ok := c.resolve(host); ok {
			for _, h := range d.hosts {
				if strings.TrimPrefix(h, "tcp|") == hostPort(ip, port) {
					st.w.stat("dontcare:next-hop-is-the-sender's-advertised-address")
					return
				}
			}
		}
	}
	switch d.class {
	case "route":
		if eproto != d.proto || got != d.hosts[0] {
			st.v("C03", "wrong-destination", id, sig+";got="+eproto+";want="+d.proto, "routed by Route to %s/%s, expected %s/%s", eproto, got, d.proto, d.hosts[0])
		}
	case "static":
		ok := false
		var chosen []string
		for i, h := range d.hosts {
			if h == eproto+"|"+got {
				ok = true
				if i < len(d.hopHosts) {
					d.hopHost = d.hopHosts[i] // the entry that was actually chosen
					chosen = append(chosen, d.hopHosts[i])
				}
			}
		}
		for _, h := range chosen {
			if h != chosen[0] {
				// two admissible entries lead to the same address under different host texts
				// (a name and its address): which one was used cannot be observed
				d.ambiguousHop = true
			}
		}
		st.judged("C18")
		if !ok {
			st.v("C03", "wrong-destination", id, sig, "routed by static route (To host %q) to %s/%s, expected one of %v", toHost, eproto, got, d.hosts)
			st.v("C18", "wrong-route-answer", id, "", "To host %q routed to %s/%s, admissible %v", toHost, eproto, got, d.hosts)
		}
		ans := eproto + "|" + got
		if prev, seen := st.routeAnswers[toHost]; seen && prev != ans {
			st.v("C18", "unstable-answer", id, "", "To host %q was routed to %s earlier and to %s now", toHost, prev, ans)
		}
		st.routeAnswers[toHost] = ans
	case "backend":
		ok := false
		for _, b := range st.backendAddrs(op.Listen) {
			if b == eproto+"|"+got {
				ok = true
			}
		}
		if !ok {
			st.v("C03", "wrong-destination", id, sig, "service request sent to %s/%s which is not a backend of listener %d %v", eproto, got, op.Listen, l.Backends)
		}
	}
	if e.M == nil {
		return
	}
	out := e.M

	// --- C13: Route list of the relayed request ---
	outRoutes, err := out.NameAddrs("route")
	st.judged("C13")
	want := wantRoutes
	if d.class != "route" {
		want = remaining
	}
	rsig := fmt.Sprintf("consumed=%v;keep=%v", consumed, keep)
	if err != nil {
		st.v("C13", "route-undecodable", id, rsig, "relayed Route header does not decode: %v", err)
	} else if len(outRoutes) != len(want) {
		st.v("C13", "route-count", id, rsig, "relayed %d Route entries, expected %d (received %d, own consumed=%v, keep-next-hop=%v)\nreceived: %v\nrelayed:  %v", len(outRoutes), len(want), len(routes), consumed, keep, in.List("route"), out.List("route"))
	} else {
		for i := range want {
			if !nameAddrEqual(want[i], outRoutes[i]) {
				st.v("C13", "route-entry-changed", id, rsig+";"+routeDiffSig(want[i], outRoutes[i]), "Route entry %d relayed as %q, received as %q", i, outRoutes[i].Raw, want[i].Raw)
				break
			}
		}
	}

	// --- C06 / C07: Via and Record-Route ---
	outVias, err := out.Vias()
	if err != nil {
		st.v("C06", "via-undecodable", id, "", "relayed Via does not decode: %v", err)
		return
	}
	// insertion expected?
	insert := "no"
	var admissible []learnedAt
	if d.class == "backend" {
		insert = "yes"
		if l.UDP != 0 {
			admissible = append(admissible, learnedAt{listen: op.Listen, transport: "udp"})
		}
		if l.TCP != 0 {
			admissible = append(admissible, learnedAt{listen: op.Listen, transport: "tcp"})
		}
	} else {
		if st.isProxyAddr(d.hopHost) || d.ambiguousHop {
			// the proxy's own addresses become "learned" through its own traffic
			insert = "dontcare"
		} else if la, ok := prior[d.hopHost]; ok {
			insert = "yes"
			admissible = st.learned[d.hopHost]
		} else if st.burstTaught[d.hopHost] || st.taughtByThis(d.hopHost, op, inVias) || st.learnedUnderAnotherName(d.hopHost) {
			insert = "dontcare"
		} else {
			_ = la
		}
	}

	extra := len(outVias) - len(inVias)
	st.done[op.ID] = &judgedReq{op: op, in: in, em: e, extra: extra, srcPort: srcPort}
	st.judged("C06")
	isig := "insert=" + insert + ";class=" + d.class
	switch {
	case insert == "dontcare":
		st.w.stat("dontcare:self-taught-next-hop")
	case insert == "yes" && extra != 1:
		st.v("C06", "via-count", id, isig, "expected exactly one new Via (class %s, next hop %q learned), relayed %d entries for %d received", d.class, d.hopHost, len(outVias), len(inVias))
	case insert == "no" && extra != 0:
		st.v("C06", "via-count", id, isig, "next hop %q is not learned: expected no new Via, relayed %d entries for %d received", d.hopHost, len(outVias), len(inVias))
	}
	if extra < 0 || extra > 1 {
		return
	}
	rest := outVias[extra:]
	// received entries follow in order (the sender's entry modulo the stamp)
	for i := range inVias {
		a, b := inVias[i], rest[i]
		if i == 0 {
			a, b = stripStamp(a), stripStamp(b)
		}
		if !viaEqual(a, b) {
			st.v("C06", "via-entry-changed", id, fmt.Sprintf("idx=%d", i), "received Via entry %d %q relayed as %q", i, inVias[i].Raw, rest[i].Raw)
			// C07: "all other Via entries and parameters are untouched"
			if i == 0 {
				st.v("C07", "sender-via-touched-beyond-the-stamp", id, "", "the sender's Via entry %q was relayed as %q: something other than received/rport changed", inVias[i].Raw, rest[i].Raw)
			} else {
				st.v("C07", "other-via-entry-touched", id, fmt.Sprintf("idx=%d", min(i, 2)), "Via entry %d (not the sender's) %q was relayed as %q", i, inVias[i].Raw, rest[i].Raw)
			}
			break
		}
	}
	// C07 stamp on the sender's entry
	st.judged("C07")
	st.judgeStamp(op, l, inVias[0], rest[0], srcPort)

	outRR, err1 := out.NameAddrs("record-route")
	inRR, _ := in.NameAddrs("record-route")
	if err1 != nil {
		st.v("C06", "rr-undecodable", id, "", "relayed Record-Route does not decode: %v", err1)
		return
	}
	if extra == 1 {
		nv := outVias[0]
		okEndpoint := false
		for _, a := range admissible {
			ea, ep := a.endpoint(c)
			if strings.EqualFold(nv.Transport, a.transport) && nv.Host == ea && nv.EffPort() == ep {
				okEndpoint = true
			}
		}
		if insert == "yes" && !okEndpoint {
			st.v("C06", "via-names-wrong-listener", id, isig, "new Via %q does not name an admissible listener endpoint %v", nv.Raw, admissible)
		}
		if nv.Proto[:8] != "SIP/2.0/" {
			st.v("C06", "via-protocol", id, "", "new Via %q has a bad sent-protocol", nv.Raw)
		}
		br, ok := nv.Param("branch")
		if !ok || !strings.HasPrefix(br.V, "z9hG4bK") || len(br.V) <= len("z9hG4bK") {
			st.v("C06", "branch-cookie", id, "", "new Via %q lacks a branch starting with z9hG4bK", nv.Raw)
		} else {
			if prev, seen := st.seenBranches[br.V]; seen {
				st.v("C06", "branch-reused", id, "", "branch %s already used for message %s", br.V, prev)
			}
			st.seenBranches[br.V] = id
			st.w.stat("branches")
		}
		// Record-Route policy
		mustAll, mustAny := true, false
		for _, a := range admissible {
			if c.Listens[a.listen].MustRR {
				mustAny = true
			} else {
				mustAll = false
			}
		}
		if !c.Listens[op.Listen].MustRR {
			mustAll = false
		} else {
			mustAny = true
		}
		wantRR := "no"
		if len(inRR) > 0 || mustAll {
			wantRR = "yes"
		} else if mustAny {
			wantRR = "dontcare"
		}
		rrExtra := len(outRR) - len(inRR)
		rrsig := "wantRR=" + wantRR
		switch {
		case wantRR == "yes" && rrExtra != 1:
			st.v("C06", "rr-count", id, rrsig, "expected one new Record-Route entry (had %d, must-record=%v), relayed %d", len(inRR), mustAll, len(outRR))
		case wantRR == "no" && rrExtra != 0:
			st.v("C06", "rr-count", id, rrsig, "expected no new Record-Route entry (had none, must-record off), relayed %d", len(outRR))
		}
		if rrExtra == 1 {
			rr := outRR[0]
			okRR := false
			for _, a := range admissible {
				al := c.Listens[a.listen]
				ea, ep := a.endpoint(c)
				if rr.Host == ea && (rr.Port == ep || a.addr == "" && (rr.Port == al.UDP || rr.Port == al.TCP)) {
					okRR = true
				}
			}
			// "that listener's ... address and port": the new Via and the new Record-Route entry name the same endpoint,
			// whichever listener it is (also where the choice itself is a don't-care)
			rp := rr.Port
			if rp == 0 {
				rp = 5060
			}
			if rr.Host != nv.Host || rp != nv.EffPort() {
				st.v("C06", "via-and-record-route-name-different-listeners", id, "insert="+insert, "new Via %q and new Record-Route entry %q name different endpoints", nv.Raw, rr.Raw)
			}
			_, lr := rr.UParam("lr")
			if insert == "yes" && (!okRR || !lr || rr.Scheme != "sip" || rr.User != "") {
				st.v("C06", "rr-entry", id, "", "new Record-Route entry %q is not <sip:listener-address:port;lr>", rr.Raw)
			}
		}
		if rrExtra == 0 || rrExtra == 1 {
			for i := range inRR {
				if !nameAddrEqual(inRR[i], outRR[rrExtra+i]) {
					st.v("C06", "rr-entry-changed", id, routeDiffSig(inRR[i], outRR[rrExtra+i]), "received Record-Route entry %d %q relayed as %q", i, inRR[i].Raw, outRR[rrExtra+i].Raw)
					break
				}
			}
		}
	} else {
		if len(outRR) != len(inRR) {
			st.v("C06", "rr-count", id, "insert=no", "no Via inserted but Record-Route entries changed from %d to %d", len(inRR), len(outRR))
		}
	}

	// --- C01: everything else untouched ---
	st.judgeContent(op, in, out)
}

func routeDiffSig(a, b sipwire.NameAddr) string {
	switch {
	case strings.TrimSpace(a.Display) != strings.TrimSpace(b.Display):
		if strings.Contains(a.Display, "%") {
			return "diff=display-percent"
		}
		return "diff=display"
	case a.URI != b.URI:
		if strings.Contains(a.URI, "%") {
			return "diff=uri-percent"
		}
		for _, p := range a.UParams {
			if !p.HasVal && !strings.EqualFold(p.K, "lr") {
				return "diff=uri-valueless-param"
			}
		}
		return "diff=uri"
	default:
		if len(a.HParams) > 0 && len(b.HParams) == 0 {
			return "diff=hparams-lost"
		}
		return "diff=hparams"
	}
}

func (st *relayState) destIsProxy(hosts []string) bool {
	for _, h := range hosts {
		if i := strings.Index(h, "|"); i >= 0 {
			h = h[i+1:]
		}
		a := udpAddr(h)
		if li, _ := st.c.listenerAt(a.IP.String(), a.Port); li >= 0 {
			return true
		}
	}
	return false
}

func (st *relayState) hasSink(hosts []string) bool {
	for _, h := range hosts {
		for _, s := range st.c.TCPSinks {
			if s == h {
				return true
			}
		}
	}
	return false
}

func (st *relayState) ruriIsListener(uri string, l *ListenCfg, proto string) bool {
	na, err := sipwire.ParseNameAddr("<" + uri + ">")
	if err != nil || (na.Scheme != "sip" && na.Scheme != "sips") {
		return false
	}
	port := na.Port
	if port == 0 {
		port = 5060
	}
	return na.Host == l.Addr && port == l.port(proto)
}

func (st *relayState) taughtByThis(host string, op *Op, vias []sipwire.Via) bool {
	if host == op.SrcIP {
		return true
	}
	for _, v := range vias {
		if v.Host == host {
			return true
		}
	}
	return false
}

// the statement does not say whether a host learned as an address counts as
// learned when it is addressed by a name resolving to it (or vice versa)
func (st *relayState) learnedUnderAnotherName(host string) bool {
	ip, ok := st.c.resolve(host)
	if !ok {
		return false
	}
	for h := range st.learned {
		if h2, ok := st.c.resolve(h); ok && h2 == ip {
			return true
		}
	}
	return false
}

func (st *relayState) isProxyAddr(host string) bool {
	ip, ok := st.c.resolve(host)
	if !ok {
		return false
	}
	for _, l := range st.c.Listens {
		if l.Addr == ip || l.ip() == ip {
			return true
		}
	}
	return false
}

func (st *relayState) learn(listen int, proto string, srcIP string, vias []sipwire.Via) {
	st.learnAt(learnedAt{listen: listen, transport: proto}, srcIP, vias)
}

func (st *relayState) learnAt(la learnedAt, srcIP string, vias []sipwire.Via) {
	add := func(h string) {
		for _, x := range st.learned[h] {
			if x == la {
				return
			}
		}
		st.learned[h] = append(st.learned[h], la)
	}
	add(srcIP)
	for _, v := range vias {
		add(v.Host)
	}
}

func stripStamp(v sipwire.Via) sipwire.Via {
	var ps []sipwire.KV
	for _, p := range v.Params {
		if p.K == "received" || p.K == "rport" {
			continue
		}
		ps = append(ps, p)
	}
	v.Params = ps
	return v
}

func (st *relayState) judgeStamp(op *Op, l *ListenCfg, in, out sipwire.Via, srcPort int) {
	id := op.ID
	sig := "noReceived=" + l.NoReceived
	if !l.receivedSupport() {
		if !viaEqual(in, out) {
			st.v("C07", "stamped-although-disabled", id, sig, "received-support is off but sender's Via %q was relayed as %q", in.Raw, out.Raw)
		}
		return
	}
	rc, ok := out.Param("received")
	if !ok || rc.V != op.SrcIP {
		st.v("C07", "received-missing-or-wrong", id, sig, "request from %s:%d left with sender Via %q (expected received=%s)", op.SrcIP, srcPort, out.Raw, op.SrcIP)
	}
	_, hadRport := in.Param("rport")
	rp, hasRport := out.Param("rport")
	switch {
	case hadRport && (!hasRport || rp.V != strconv.Itoa(srcPort)):
		st.v("C07", "rport-missing-or-wrong", id, sig, "sender asked for rport; request from %s:%d left with %q (expected rport=%d)", op.SrcIP, srcPort, out.Raw, srcPort)
	case !hadRport && hasRport:
		st.v("C07", "rport-added", id, sig, "sender did not ask for rport but relayed Via is %q", out.Raw)
	}
	// the stamp must be the only change: exactly one received / rport each
	n := 0
	for _, p := range out.Params {
		if p.K == "received" {
			n++
		}
	}
	if n > 1 {
		st.v("C07", "received-duplicated", id, sig, "relayed Via %q carries several received parameters", out.Raw)
	}
}

// judgeContent: C01 comparator.
func (st *relayState) judgeContent(op *Op, in, out *sipwire.Msg) {
	id := op.ID
	st.judged("C01")
	kind := "response"
	if in.IsRequest {
		kind = "request"
	}
	if in.StartLine != out.StartLine {
		sig := "kind=" + kind
		if in.IsRequest {
			sig += ";" + uriDiffSig(in.URI, out.URI)
		}
		st.v("C01", "start-line-changed", id, sig, "start line %q relayed as %q", clip(in.StartLine, 200), clip(out.StartLine, 200))
	}
	managed := func(n string) bool {
		switch sipwire.Canon(n) {
		case "via", "route", "record-route", "content-length":
			return true
		}
		return false
	}
	var a, b []sipwire.Header
	for _, h := range in.Headers {
		if !managed(h.Name) {
			a = append(a, h)
		}
	}
	for _, h := range out.Headers {
		if !managed(h.Name) {
			b = append(b, h)
		}
	}
	if len(a) != len(b) {
		st.v("C01", "header-count", id, "", "received %d header fields outside the managed ones, relayed %d", len(a), len(b))
	} else {
		for i := range a {
			if a[i].Name != b[i].Name {
				st.v("C01", "header-name-or-order", id, "", "header %d: received name %q, relayed name %q", i, a[i].Name, b[i].Name)
				break
			}
			if a[i].Value != b[i].Value {
				st.v("C01", "header-value-changed", id, "name="+sipwire.Canon(a[i].Name)+";"+valueDiffSig(a[i].Value, b[i].Value), "header %q: received value %q, relayed %q", a[i].Name, clip(a[i].Value, 200), clip(b[i].Value, 200))
				break
			}
		}
	}
	cls := out.Get("content-length")
	inCLName := ""
	for _, h := range in.Headers {
		if sipwire.Canon(h.Name) == "content-length" {
			inCLName = h.Name
		}
	}
	if len(cls) != 1 {
		var names []string
		for _, h := range out.Headers {
			if sipwire.Canon(h.Name) == "content-length" {
				names = append(names, h.Name)
			}
		}
		st.v("C01", "content-length-count", id, "received-name="+clNameClass(inCLName), "relayed message carries %d Content-Length fields %v (received spelling %q)", len(cls), names, inCLName)
	} else if v, err := strconv.Atoi(cls[0]); err != nil || v != len(out.Body) {
		st.v("C01", "content-length-value", id, "", "Content-Length %q but %d body bytes sent", cls[0], len(out.Body))
	}
	if !bytes.Equal(in.Body, out.Body) {
		st.v("C01", "body-changed", id, "", "body of %d bytes relayed as %d bytes (first difference at %d)", len(in.Body), len(out.Body), firstDiff(in.Body, out.Body))
	}
}

func clNameClass(n string) string {
	switch {
	case n == "Content-Length":
		return "exact"
	case strings.EqualFold(n, "content-length"):
		return "other-case"
	case strings.EqualFold(n, "l"):
		return "compact"
	case n == "":
		return "absent"
	}
	return "other"
}

func valueDiffSig(a, b string) string {
	if strings.Contains(a, "%") {
		return "diff=percent"
	}
	return "diff=other"
}

func uriDiffSig(a, b string) string {
	if strings.Contains(a, "%") && !strings.Contains(strings.ToLower(a[:4]), "sip") {
		return "diff=abs-uri-percent"
	}
	na, _ := sipwire.ParseNameAddr("<" + a + ">")
	for _, p := range na.UParams {
		if !p.HasVal && !strings.EqualFold(p.K, "lr") {
			return "diff=uri-valueless-param"
		}
	}
	return "diff=other"
}

func firstDiff(a, b []byte) int {
	n := len(a)
	if len(b) < n {
		n = len(b)
	}
	for i := 0; i < n; i++ {
		if a[i] != b[i] {
			return i
		}
	}
	return n
}

// ---- responses: C02 ----

func (st *relayState) judgeResponse(op *Op, in *sipwire.Msg, ems []*Emitted) {
	c := st.c
	id := op.ID
	st.judged("C02")
	vias, err := in.Vias()
	type want struct {
		nowhere bool
		proto   string
		addr    string
		unknown bool
	}
	var wnt want
	var next sipwire.Via
	if err != nil || len(vias) < 2 {
		wnt.nowhere = true
	} else {
		next = vias[1]
		tr := strings.ToLower(next.Transport)
		if !supportedTransport(tr) {
			wnt.nowhere = true
		} else {
			host := next.Host
			port := next.EffPort()
			if rc, ok := next.Param("received"); ok && rc.V != "" {
				host = rc.V
				if rp, ok := next.Param("rport"); ok {
					if n, err := strconv.Atoi(rp.V); err == nil {
						port = n
					}
				}
			}
			wnt.proto = tr
			if ip, ok := c.resolve(host); ok {
				wnt.addr = hostPort(ip, port)
			} else {
				wnt.unknown = true
			}
		}
	}
	sig := fmt.Sprintf("vias=%d", len(vias))
	if wnt.nowhere {
		if len(ems) != 0 {
			st.v("C02", "relayed-but-should-drop", id, sig, "response with %d Via entries (next transport %q) must be sent nowhere, was sent to %s/%s", len(vias), next.Transport, ems[0].E.Proto, ems[0].E.Dst)
		}
		return
	}
	if wnt.unknown {
		st.w.stat("dontcare:unresolvable-via-host")
		return
	}
	if len(ems) != 1 {
		if len(ems) == 0 && wnt.proto == "tcp" && !st.hasSink([]string{wnt.addr}) {
			st.w.stat("dontcare:tcp-destination-without-listener")
			return
		}
		st.v("C02", "not-exactly-one-emission", id, sig+fmt.Sprintf(";n=%d", len(ems)), "response must be relayed once to %s/%s (next Via %q), emitted %d time(s)", wnt.proto, wnt.addr, next.Raw, len(ems))
		if len(ems) == 0 {
			return
		}
	}
	e := ems[0]
	eproto, eip, eport := emissionDest(e.E)
	if eproto != wnt.proto || hostPort(eip, eport) != wnt.addr {
		st.v("C02", "wrong-destination", id, "got="+eproto+";want="+wnt.proto, "response relayed to %s/%s, next Via %q means %s/%s", eproto, hostPort(eip, eport), next.Raw, wnt.proto, wnt.addr)
	}
	if e.M == nil {
		return
	}
	outVias, err := e.M.Vias()
	if err != nil {
		st.v("C02", "via-undecodable", id, sig, "relayed Via does not decode: %v", err)
		return
	}
	if len(outVias) != len(vias)-1 {
		st.v("C02", "via-count", id, sig, "received %d Via entries, relayed %d (expected %d)", len(vias), len(outVias), len(vias)-1)
	} else {
		for i := range outVias {
			if !viaEqual(vias[i+1], outVias[i]) {
				st.v("C02", "via-entry-changed", id, sig, "remaining Via entry %d %q relayed as %q", i, vias[i+1].Raw, outVias[i].Raw)
				break
			}
		}
	}
	st.judgeContent(op, in, e.M)
}

func init() {
	for _, id := range []string{"C01", "C02", "C03", "C06", "C07", "C13"} {
		id := id
		register(id, func(seed uint64, tier string) *Plan {
			if id == "C03" && (seed^(seed>>17))%12 == 0 {
				// the decision table with a history: dialogs are pinned to backends, and requests of those dialogs arrive
				// whose Request-URI is foreign and that carry no Route - they match none of the three rules and are dropped,
				// pinned dialog or not (the dialog world, judged by C03's rule)
				p := genStickyPlan(seed, tier)
				if p.Variant == "" {
					p.Variant = "dialog-foreign-ruri"
					g := newGen(seed ^ 0xf0f0)
					for i := range p.Ops {
						for k := range p.Ops[i].Sub {
							if sub := &p.Ops[i].Sub[k]; sub.S["after"] == "" && sub.S["method"] != "BYE" && !strings.HasPrefix(sub.S["state"], "terminated") && g.chance(35) {
								sub.S["foreign"] = g.pick("sip:peer@elsewhere.invalid", "sip:10.9.9.9:5060", "sip:"+g.user0()+"@caller.invalid;transport=udp")
							}
						}
					}
				}
				return p
			}
			if id == "C06" && (seed^(seed>>19))%16 == 0 {
				// requests towards backends while the rotation changes by name resolution, pinned dialogs whose backend
				// has been withdrawn among them: one fresh Via of the listen entry each (the membership world, C06's rule)
				p := genMembershipPlan(seed, tier)
				p.Variant = "membership"
				return p
			}
			if id == "C02" && (seed^(seed>>19))%16 == 2 {
				// answers to TCP clients (late, reordered, after reconnects): each returns to the hop its request came from
				p := genAffinityPlan(seed, tier)
				p.Variant = "affinity"
				return p
			}
			if id == "C07" && (seed^(seed>>19))%16 == 1 {
				// TCP clients from one address, requests sent again over new connections, answers late and reordered:
				// every answer travels back to the connection its request really came from (the affinity world of C12)
				p := genAffinityPlan(seed, tier)
				p.Variant = "affinity"
				return p
			}
			p := genRelayPlan(seed, tier, id)
			if id == "C01" && (seed^(seed>>13))%4 == 0 && p.Variant == "" {
				// what is relayed for messages of dialogs that are bound to a backend (the proxy looks into more of their
				// headers: Expires, Subscription-State) is held to the same standard: call and subscription snippets
				g := newGen(seed ^ 0xc01d)
				for li, l := range p.Cfg.Listens {
					if len(l.Backends) < 1 || l.UDP == 0 {
						continue
					}
					p.Ops = append(p.Ops, genDialogSnippet(g, &p.Cfg, li, g.intn(len(l.Backends)))...)
					p.Ops = append(p.Ops, genSubscribeSnippet(g, &p.Cfg, li, g.intn(len(l.Backends)))...)
					break
				}
			}
			return p
		}, func(t *testing.T, p *Plan) *Result {
			if p.Variant == "dialog-foreign-ruri" || p.Variant == "membership" {
				return execSticky(t, p)
			}
			if p.Variant == "affinity" {
				return execAffinity(t, p)
			}
			return execRelay(t, p)
		})
	}
}
