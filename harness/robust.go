//go:build verif

package main

import (
	"bytes"
	"encoding/json"
	"fmt"
	"runtime"
	"strconv"
	"strings"
	"testing"
	"time"

	"verif/sim/simnet"
	"verif/sim/sipwire"
)

// C08: no network input can crash, wedge or balloon the proxy. Valid
// background traffic plus hostile deliveries (structural mutations of valid
// messages, raw bytes, hostile field values) on UDP and TCP, requests and
// responses. After every hostile delivery the world runs to exact quiescence
// and then: no goroutine panicked, every listener's goroutines are alive and
// idle, nothing is stuck on a lock or a channel send, a sentinel transaction
// per listener (UDP from another source, TCP on a new connection) is relayed
// and answered, a TCP connection that carried undecodable bytes is closed,
// and the bytes allocated since the delivery stay in proportion.

const allocSlack = 8 << 20

// heapAllocs: bytes allocated by the process so far. runtime.ReadMemStats flushes the per-P allocation caches first,
// so the figure is exact at the instant of the call (runtime/metrics' /gc/heap/allocs:bytes lags by what the caches
// hold - up to megabytes with many Ps - and once put a delta over the bound that a fresh process did not show).
func heapAllocs() uint64 {
	var m runtime.MemStats
	runtime.ReadMemStats(&m)
	return m.TotalAlloc
}

var hostileCL = []string{"-1", "-2147483648", "abc", "", "1e9", "0x10", "99999999999999999999", "2147483647", "268435456", "67108864", "999999999999999", "4294967296", " 5", "5 ", "+5", "00000000005"}
var hostileViaHosts = []string{"", "[", "[]", "[::1", "]", "[[[[", ":", ":5060", "a:b:c", "h:99999999999", "h:-1", strings.Repeat("h", 65000)}

func genRobustPlan(seed uint64, tier string) *Plan {
	g := newGen(seed)
	p := &Plan{Sched: g.intn(3), PCTDepth: 1 + g.intn(3)}
	c := genRelayCfg(g, "C08")
	// every listener gets both transports and UDP backends so that sentinels are relayed
	for i := range c.Listens {
		l := &c.Listens[i]
		if l.UDP == 0 {
			l.UDP = 5070 + i
		}
		if l.TCP == 0 {
			l.TCP = 5070 + i
		}
		l.Backends = []string{fmt.Sprintf("udp://10.2.%d.1:5070", i), fmt.Sprintf("udp://10.2.%d.2:5070", i)}
	}
	c.Name = "svc.example.com"
	c.Routes = nil // the sentinel is a plain service request: nothing may route it elsewhere
	if c.Knobs == nil {
		c.Knobs = map[string]int{}
	}
	c.Knobs["maxSteps"] = 400000
	p.Cfg = *c
	o := &relayGenOpts{focus: "C08", maxVal: 2000, maxBody: 4000, rich: true, responses: true}
	n := g.rng(3, 10)
	for i := 0; i < n; i++ {
		var base Op
		if g.chance(30) {
			base = genResponse(g, &p.Cfg, o)
		} else {
			base = genRequest(g, &p.Cfg, o, nil)
		}
		if g.chance(25) {
			base.Kind = "valid"
			p.Ops = append(p.Ops, base)
			continue
		}
		base.Kind = "hostile"
		base.S = map[string]string{}
		data := base.Data
		switch g.intn(12) {
		case 0: // bit flips
			data = append([]byte(nil), data...)
			for k := 0; k < 1+g.intn(8); k++ {
				data[g.intn(len(data))] ^= 1 << uint(g.intn(8))
			}
			base.S["how"] = "bit-flips"
		case 1: // truncation
			data = data[:g.intn(len(data))]
			base.S["how"] = "truncated"
		case 2: // byte insertion / deletion
			data = append([]byte(nil), data...)
			for k := 0; k < 1+g.intn(5); k++ {
				i := g.intn(len(data))
				if g.chance(50) {
					data = append(data[:i], data[i+1:]...)
				} else {
					data = append(data[:i], append([]byte{byte(g.r.Uint64())}, data[i:]...)...)
				}
				if len(data) == 0 {
					data = []byte{0}
				}
			}
			base.S["how"] = "insert-delete"
		case 3: // chunk duplication
			i := g.intn(len(data))
			j := i + g.intn(len(data)-i)
			data = append(append(append([]byte(nil), data[:j]...), data[i:j]...), data[j:]...)
			base.S["how"] = "chunk-duplicated"
		case 4: // splice two messages
			other := genRequest(g, &p.Cfg, o, nil).Data
			data = append(append([]byte(nil), data[:g.intn(len(data))]...), other[g.intn(len(other)):]...)
			base.S["how"] = "spliced"
		case 5: // raw bytes
			n := g.pick2(1, 10, 100, 4000, 60000)
			data = make([]byte, n)
			for i := range data {
				data[i] = byte(g.r.Uint64())
			}
			if g.chance(50) {
				copy(data, "INVITE sip:a@b SIP/2.0\r\n")
			}
			base.S["how"] = "raw-bytes"
		case 6, 7: // hostile Content-Length
			data = replaceHeader(data, "content-length", hostileCL[g.intn(len(hostileCL))], g.chance(15))
			base.S["how"] = "content-length"
		case 8: // hostile Via host / no Via / no branch
			switch g.intn(4) {
			case 0:
				data = replaceHeader(data, "via", "", true)
				base.S["how"] = "no-via"
			case 1:
				data = replaceHeader(data, "via", "SIP/2.0/"+g.pick("UDP", "TCP")+" 10.1.0.1:5060", false)
				base.S["how"] = "via-without-branch"
			default:
				h := hostileViaHosts[g.intn(len(hostileViaHosts))]
				data = replaceHeader(data, "via", "SIP/2.0/"+g.pick("UDP", "TCP", "TLS")+" "+h+";branch=z9hG4bK"+g.alnum(5, 9)+g.pick("", ";rport", ";received=["), false)
				base.S["how"] = "via-host"
			}
		case 9: // missing mandatory header
			name := g.pick("to", "from", "cseq", "call-id")
			data = replaceHeader(data, name, "", true)
			base.S["how"] = "missing-" + name
		case 10: // unparsable typed header
			switch g.intn(5) {
			case 0:
				data = replaceHeader(data, "route", "<sip:10.3.0.1;lr", false)
				data = append([]byte(strings.Replace(string(data), "\r\n", "\r\nRoute: <sip:10.3.0.1;lr\r\n", 1)), []byte{}...)
			case 1:
				data = replaceHeader(data, "from", "<", false)
			case 2:
				data = replaceHeader(data, "cseq", g.pick("INVITE", "1", "x y", "1 2 3", ""), false)
			case 3:
				data = replaceHeader(data, "to", g.pick(">", "<>", "sip:", "<sip:>", ";tag=1", "\"unterminated <sip:a@b>"), false)
			default:
				data = []byte(strings.Replace(string(data), "\r\n", "\r\nRecord-Route: "+g.pick("<", ",", "<sip:x", ",,,")+"\r\n", 1))
			}
			base.S["how"] = "typed-header"
		default: // start line / very many headers
			s := string(data)
			nl := strings.Index(s, "\r\n")
			switch g.intn(5) {
			case 0:
				if strings.HasPrefix(s, "SIP/") && g.chance(70) {
					// status codes outside 100-699 in an otherwise routable response
					s = "SIP/2.0 " + g.pick("700", "799", "999", "1000", "65536", "2147483647", "-100", "-1000", "0", "99", "-1") + " Strange" + s[nl:]
					base.S["how"] = "status-out-of-range"
				} else {
					s = g.pick("INVITE sip:a@b", "INVITE sip:a@b SIP/2.0 extra", "SIP/2.0", "SIP/2.0 abc OK", "SIP/2.0 99999999999999999999 OK", "SIP/2.0 -5 X", " ", "INVITE  SIP/2.0") + s[nl:]
					base.S["how"] = "start-line"
				}
			case 1:
				var sb strings.Builder
				sb.WriteString(s[:nl+2])
				k := g.pick2(1000, 5000, 20000)
				for i := 0; i < k && sb.Len() < 60000; i++ {
					sb.WriteString("X: y\r\n")
				}
				sb.WriteString(s[nl+2:])
				s = sb.String()
				base.S["how"] = "many-headers"
			case 2:
				via := "Via: SIP/2.0/UDP 10.1.0.1:5060;branch=z9hG4bKx" + strings.Repeat(";p", g.pick2(1000, 10000)) + "\r\n"
				s = s[:nl+2] + via + s[nl+2:]
				base.S["how"] = "many-parameters"
			case 3:
				s = s[:nl+2] + "Via: " + strings.Repeat("SIP/2.0/UDP h,", g.pick2(100, 3000)) + "SIP/2.0/UDP h\r\n" + s[nl+2:]
				base.S["how"] = "many-via-entries"
			default:
				s = strings.Replace(s, "\r\n\r\n", "\r\nExpires: "+g.pick("-1", "99999999999999999999", "abc", "2147483647")+"\r\n\r\n", 1)
				base.S["how"] = "expires"
			}
			data = []byte(s)
		}
		if g.chance(12) {
			// multi-step: a valid service request over TCP, then undecodable bytes on the same
			// connection (or the client hangs up), then the backend's answer to the first request
			id := g.nextID()
			b := &sipwire.Builder{Start: "OPTIONS sip:probe@svc.example.com SIP/2.0"}
			b.Add("Via", "SIP/2.0/TCP 10.1.0.2:5060;branch=z9hG4bK"+strings.ReplaceAll(id, "-", "")+g.pick("", ";rport"))
			b.Add("From", "<sip:a@caller.test>;tag=1")
			b.Add("To", "<sip:probe@svc.example.com>")
			b.Add("Call-ID", "cid-"+id)
			b.Add("CSeq", "1 OPTIONS")
			b.Add("X-Sim-Id", id)
			base = Op{Kind: "hostile", ID: id, Proto: "tcp", SrcIP: "10.1.0.2", Listen: g.intn(len(p.Cfg.Listens)), Conn: "h-" + id,
				S: map[string]string{"how": "valid-then-" + g.pick("garbage", "hangup") + "-then-answer"}}
			data = b.Bytes()
		}
		if g.chance(6) {
			// a well-formed service request over TCP that no UDP datagram can carry once the proxy's Via is on it:
			// the write towards the UDP backend fails (EMSGSIZE); nothing but that request may be lost
			id := g.nextID()
			b := &sipwire.Builder{Start: "MESSAGE sip:big@svc.example.com SIP/2.0"}
			b.Add("Via", "SIP/2.0/TCP 10.1.0.2:5060;branch=z9hG4bK"+strings.ReplaceAll(id, "-", ""))
			b.Add("From", "<sip:a@caller.test>;tag=1")
			b.Add("To", "<sip:big@svc.example.com>")
			b.Add("Call-ID", "cid-"+id)
			b.Add("CSeq", "1 MESSAGE")
			b.Add("X-Sim-Id", id)
			b.Body = bytes.Repeat([]byte("0123456789abcdef"), (65200+g.intn(1500))/16)
			base = Op{Kind: "hostile", ID: id, Proto: "tcp", SrcIP: "10.1.0.2", Listen: g.intn(len(p.Cfg.Listens)), Conn: "h-" + id,
				S: map[string]string{"how": "too-big-for-a-datagram-over-tcp"}}
			data = b.Bytes()
		}
		if g.chance(4) {
			// many short-lived TCP clients, one after the other: connect, send a valid request, hang up. The proxy may
			// hold few connections at a time in this world (its descriptor limit); whatever it keeps of a client that
			// has gone must not add up
			id := g.nextID()
			base = Op{Kind: "hostile", ID: id, Proto: "tcp", SrcIP: "10.1.0.4", Listen: g.intn(len(p.Cfg.Listens)), Conn: "h-" + id,
				S: map[string]string{"how": "many-short-lived-clients"}, I: map[string]int{"clients": g.rng(40, 70), "tcpHop": g.intn(2)}}
			p.Cfg.Knobs["maxTCPConns"] = 24
			data = []byte{}
		} else if g.chance(5) {
			// a TCP peer that connects and says nothing, and stays: whoever connects after it must be served
			id := g.nextID()
			base = Op{Kind: "hostile", ID: id, Proto: "tcp", SrcIP: "10.1.0.3", Listen: g.intn(len(p.Cfg.Listens)), Conn: "h-" + id,
				S: map[string]string{"how": "silent-connection"}}
			data = []byte{}
		} else if g.chance(6) {
			// a stray answer that carries a dialog (both tags) from an address that is no backend, for a transaction the
			// proxy never saw - then a request of that dialog
			id := g.nextID()
			li := g.intn(len(p.Cfg.Listens))
			l := p.Cfg.Listens[li]
			callID, ft, tt := "stray-"+id, g.tagValue(), g.tagValue()
			rb := &sipwire.Builder{Start: "SIP/2.0 200 OK"}
			rb.Add("Via", fmt.Sprintf("SIP/2.0/UDP %s:%d;branch=z9hG4bK%s", l.Addr, l.UDP, g.alnum(8, 12)))
			rb.Add("Via", "SIP/2.0/UDP 10.1.0.1:5060;branch=z9hG4bK"+g.alnum(6, 10))
			rb.Add("From", "<sip:a@caller.test>;tag="+ft)
			rb.Add("To", "<sip:b@svc.example.com>;tag="+tt)
			rb.Add("Call-ID", callID)
			rb.Add("CSeq", "1 INVITE")
			rb.Add("X-Sim-Id", id)
			qb := &sipwire.Builder{Start: g.pick("ACK", "BYE", "INFO") + " sip:b@svc.example.com SIP/2.0"}
			qb.Add("Via", "SIP/2.0/UDP 10.1.0.1:5060;branch=z9hG4bK"+g.alnum(6, 10))
			qb.Add("From", "<sip:a@caller.test>;tag="+ft)
			qb.Add("To", "<sip:b@svc.example.com>;tag="+tt)
			qb.Add("Call-ID", callID)
			qb.Add("CSeq", "2 "+strings.Fields(qb.Start)[0])
			qb.Add("X-Sim-Id", id+".q")
			base = Op{Kind: "hostile", ID: id, Proto: "udp", SrcIP: g.pick("10.1.0.3", "10.2.0.1"), SrcPort: g.pick2(5099, 40000+g.intn(100)), Listen: li,
				S: map[string]string{"how": "stray-dialog-answer-then-request"}, Sub: []Op{{Kind: "msg", ID: id + ".q", Data: qb.Bytes()}}}
			data = rb.Bytes()
			if g.chance(40) {
				base.I = map[string]int{"twice": 1} // the stray answer is retransmitted
			}
		}
		if base.Proto == "udp" && base.S["how"] == "truncated" && g.chance(10) {
			data = []byte{} // a datagram without payload: a read of zero bytes that is not an end of anything
			base.S["how"] = "empty-datagram"
		}
		if len(data) == 0 && base.S["how"] != "silent-connection" && base.S["how"] != "many-short-lived-clients" && base.S["how"] != "empty-datagram" {
			data = []byte("\r\n")
		}
		if base.Proto == "udp" && len(data) > 65000 {
			data = data[:65000]
		}
		base.Data = data
		if base.Proto == "tcp" {
			base.Conn = "h-" + base.ID
		}
		p.Ops = append(p.Ops, base)
	}
	return p
}

// replaceHeader replaces the value of every field named canon (drop=true removes them).
func replaceHeader(data []byte, canon string, value string, drop bool) []byte {
	s := string(data)
	end := strings.Index(s, "\r\n\r\n")
	if end < 0 {
		return data
	}
	lines := strings.Split(s[:end], "\r\n")
	var out []string
	found := false
	for i, ln := range lines {
		if i > 0 {
			if c := strings.IndexByte(ln, ':'); c >= 0 && sipwire.Canon(ln[:c]) == canon {
				found = true
				if !drop {
					out = append(out, ln[:c]+": "+value)
				}
				continue
			}
		}
		out = append(out, ln)
	}
	if !found && !drop {
		out = append(out, canon+": "+value)
	}
	return []byte(strings.Join(out, "\r\n") + s[end:])
}

// definitelyMalformed: a complete line of the stream already proves that no
// message can be decoded from it.
func definitelyMalformed(data []byte) bool {
	s := strings.TrimLeft(string(data), "\r\n \t\v\f")
	first := true
	for {
		nl := strings.IndexByte(s, '\n')
		if nl < 0 {
			return false
		}
		line := strings.TrimSuffix(s[:nl], "\r")
		s = s[nl+1:]
		if first {
			f := strings.Fields(line)
			if strings.HasPrefix(line, "SIP/") {
				if len(f) < 3 {
					return true
				}
				if _, err := strconv.Atoi(f[1]); err != nil {
					return true
				}
			} else if len(f) != 3 {
				return true
			}
			first = false
			continue
		}
		if line == "" {
			return false
		}
		if !strings.Contains(line, ":") {
			return true
		}
	}
}

type census struct {
	alive map[string]int
	bad   []string
}

func takeCensus(w *World) census {
	c := census{alive: map[string]int{}}
	for _, g := range w.K.Census() {
		if g.Daemon || g.Name == "main" {
			continue
		}
		switch {
		case g.State == "exited":
		case strings.HasPrefix(g.State, "parked:mutex-lock") || strings.HasPrefix(g.State, "parked:rw-"):
			c.bad = append(c.bad, fmt.Sprintf("goroutine %s is stuck on a lock (%s)", g.Name, g.State))
			c.alive[g.Name]++
		case g.State == "real:chan-send":
			c.bad = append(c.bad, fmt.Sprintf("goroutine %s is blocked in a channel send", g.Name))
			c.alive[g.Name]++
		default:
			c.alive[g.Name]++
		}
	}
	return c
}

func execRobust(t *testing.T, p *Plan) *Result {
	r := &Result{}
	w := runWorld(t, p, func(w *World) {
		st := newRelayState(w, &p.Cfg)
		v := func(rule, id, sig, format string, a ...interface{}) {
			w.Viol = append(w.Viol, Violation{Prop: "C08", Rule: rule, Msg: id, Sig: sig, Detail: fmt.Sprintf(format, a...)})
		}
		base := takeCensus(w)
		sent := 0
		sentinel := func(after string, how string) bool {
			ok := true
			for li, l := range p.Cfg.Listens {
				for _, proto := range []string{"udp", "tcp"} {
					sent++
					id := fmt.Sprintf("sentinel%d", sent)
					b := &sipwire.Builder{Start: "OPTIONS sip:probe@svc.example.com SIP/2.0"}
					b.Add("Via", fmt.Sprintf("SIP/2.0/%s 10.1.250.1:5060;branch=z9hG4bK%s", strings.ToUpper(proto), id))
					b.Add("From", "<sip:probe@caller.test>;tag=s"+id)
					b.Add("To", "<sip:probe@svc.example.com>")
					b.Add("Call-ID", "cid-"+id)
					b.Add("CSeq", "1 OPTIONS")
					b.Add("X-Sim-Id", id)
					op := &Op{Kind: "msg", ID: id, Proto: proto, SrcIP: "10.1.250.1", SrcPort: 5060, Listen: li, Data: b.Bytes(), Settle: true, Conn: "s-" + id,
						S: map[string]string{"answer": "200"}}
					st.startBurst()
					if !st.inject(op) {
						continue
					}
					st.flushBatches()
					if !w.K.Settle(10 * time.Second) {
						return false
					}
					w.Stats["judged:C08"]++
					ems := st.emissionsOf(id)
					if len(ems) != 1 {
						v("sentinel-not-relayed", after, "how="+how+";sentinel="+proto, "after hostile delivery %s (%s) the sentinel request over %s to listener %d (%s) was relayed %d time(s)", after, how, proto, li, l.Addr, len(ems))
						ok = false
						continue
					}
					// the backend answers; the answer must come back
					req := ems[0].M
					if req == nil {
						continue
					}
					resp := buildResponse(req, respPlan{status: 200, toTag: "t" + id, expires: -1}, id)
					vias, err := req.Vias()
					if err != nil || len(vias) == 0 {
						continue
					}
					w.N.InjectUDP(udpAddr(ems[0].E.Dst), udpAddr(hostPort(vias[0].Host, l.UDP)), resp, 100*time.Microsecond)
					if !w.K.Settle(10 * time.Second) {
						return false
					}
					if len(st.emissionsOf(id+".r200")) != 1 {
						v("sentinel-not-answered", after, "how="+how+";sentinel="+proto, "after hostile delivery %s (%s) the answer to the sentinel (%s, listener %d) was relayed %d time(s)", after, how, proto, li, len(st.emissionsOf(id+".r200")))
						ok = false
					}
				}
			}
			return ok
		}
		if !sentinel("start", "none") {
			w.K.Failures = append(w.K.Failures, "harness: the sentinel does not work on a fresh proxy")
			return
		}
		for i := range p.Ops {
			op := &p.Ops[i]
			if w.dead() {
				return
			}
			how := op.S["how"]
			st.startBurst()
			a0 := heapAllocs()
			var conn *simnet.TCPEnd
			if op.Proto == "udp" {
				l := p.Cfg.Listens[op.Listen]
				w.N.InjectUDP(udpAddr(hostPort(op.SrcIP, op.SrcPort)), udpAddr(hostPort(l.Addr, l.UDP)), op.Data, 100*time.Microsecond)
				if op.I["twice"] == 1 {
					w.N.InjectUDP(udpAddr(hostPort(op.SrcIP, op.SrcPort)), udpAddr(hostPort(l.Addr, l.UDP)), op.Data, 300*time.Microsecond)
				}
				for _, fo := range op.Sub {
					w.K.Settle(10 * time.Second)
					w.N.InjectUDP(udpAddr("10.1.0.1:5060"), udpAddr(hostPort(l.Addr, l.UDP)), fo.Data, 100*time.Microsecond)
				}
			} else {
				l := p.Cfg.Listens[op.Listen]
				c, err := w.TCPConnTo(op.Conn+"-x", op.SrcIP, 0, hostPort(l.Addr, l.TCP))
				if err != nil {
					w.K.Failures = append(w.K.Failures, "harness: connect: "+err.Error())
					return
				}
				conn = c
				c.Write(op.Data)
				if how == "many-short-lived-clients" {
					// room for a dozen more connections than the proxy holds now; the clients come one at a time
					w.N.MaxProxyTCPConns = w.N.OpenProxyTCP() + 12
					for k := 0; k < op.I["clients"] && !w.dead(); k++ {
						cid := fmt.Sprintf("%s.c%d", op.ID, k)
						b := &sipwire.Builder{Start: "OPTIONS sip:probe@svc.example.com SIP/2.0"}
						b.Add("Via", "SIP/2.0/TCP 10.1.0.4:5060;branch=z9hG4bK"+strings.ReplaceAll(cid, "-", ""))
						if op.I["tcpHop"] == 1 {
							// every client's request goes on to the same next hop over TCP: one connection serves them all
							b.Add("Route", "<sip:"+topo.hops[0]+":5080;transport=tcp;lr>")
						}
						b.Add("From", "<sip:a@caller.test>;tag=1")
						b.Add("To", "<sip:probe@svc.example.com>")
						b.Add("Call-ID", "cid-"+cid)
						b.Add("CSeq", "1 OPTIONS")
						b.Add("X-Sim-Id", cid)
						cc, err := w.TCPConnTo("short-"+cid, "10.1.0.4", 0, hostPort(l.Addr, l.TCP))
						if err != nil {
							break
						}
						cc.Write(b.Bytes())
						w.K.Settle(time.Second)
						cc.Close()
						w.K.Settle(time.Second)
					}
					w.stat("probe:many-short-lived-tcp-clients")
				}
				if strings.HasPrefix(how, "valid-then-") {
					w.K.Settle(10 * time.Second)
					var relayed *Emitted
					for _, e := range st.emissionsOf(op.ID) {
						relayed = e
					}
					if strings.Contains(how, "garbage") {
						c.Write([]byte("\x00\x01garbage without any colon\r\nmore garbage\r\n\r\n"))
					} else {
						c.Close()
					}
					w.K.Settle(10 * time.Second)
					if relayed != nil && relayed.M != nil {
						if vias, err := relayed.M.Vias(); err == nil && len(vias) > 0 {
							resp := buildResponse(relayed.M, respPlan{status: 200, toTag: "t" + strings.ReplaceAll(op.ID, "-", ""), expires: -1}, op.ID)
							w.N.InjectUDP(udpAddr(relayed.E.Dst), udpAddr(hostPort(vias[0].Host, l.UDP)), resp, 100*time.Microsecond)
							w.stat("probe:answer-after-its-connection-was-closed")
						}
					}
				}
			}
			settled := w.K.Settle(10 * time.Second)
			a1 := heapAllocs()
			if w.dead() {
				return
			}
			if op.Kind != "hostile" {
				continue
			}
			w.Stats["judged:C08"]++
			w.stat("hostile:" + how + ":" + op.Proto)
			sig := "how=" + how + ";proto=" + op.Proto
			if !settled {
				v("no-quiescence", op.ID, sig, "10 simulated seconds after the hostile delivery the proxy is still busy")
			}
			if d := a1 - a0; d > allocSlack+64*uint64(len(op.Data)) {
				v("allocation-out-of-proportion", op.ID, sig, "%d bytes were delivered (%s over %s), %d bytes were allocated before quiescence (bound %d)\n%s", len(op.Data), how, op.Proto, d, allocSlack+64*len(op.Data), clip(string(op.Data), 300))
			}
			cs := takeCensus(w)
			for _, b := range cs.bad {
				v("goroutine-wedged", op.ID, sig, "%s after hostile delivery %s", b, how)
			}
			for name, n := range base.alive {
				if strings.Contains(name, "receiveMessage") && strings.HasPrefix(name, "t.") {
					continue // per-connection goroutines come and go
				}
				if cs.alive[name] < n {
					v("listener-goroutine-died", op.ID, sig+";goroutine="+name, "%d goroutine(s) %s were alive before hostile delivery %s (%s over %s), %d after", n, name, op.ID, how, op.Proto, cs.alive[name])
				}
			}
			if conn != nil && definitelyMalformed(op.Data) {
				w.stat("probe:tcp-stream-definitely-malformed")
				if !conn.PeerClosed() && !conn.IsReset() {
					v("connection-with-undecodable-bytes-left-open", op.ID, sig, "the TCP connection carried bytes no message can be decoded from and was not closed by the proxy:\n%s", clip(string(op.Data), 300))
				}
			}
			if conn != nil && !conn.Closed() && how != "silent-connection" {
				conn.Close()
				w.K.Settle(time.Second)
			}
			if !sentinel(op.ID, how) && w.dead() {
				return
			}
			w.N.MaxProxyTCPConns = 0
			if conn != nil && !conn.Closed() {
				conn.Close()
				w.K.Settle(time.Second)
			}
		}
	})
	// a goroutine that keeps the world busy for ever: the step limit is a livelock here
	if w.K.StepLimit {
		name, share := w.K.Busiest()
		w.Viol = append(w.Viol, Violation{Prop: "C08", Rule: "livelock", Sig: "goroutine=" + name,
			Detail: fmt.Sprintf("the world did not become quiescent within %d scheduling steps; goroutine %s took %.0f%% of them (it loops without waiting for input)", w.K.Step, name, share*100)})
		w.K.StepLimit = false
	}
	// panics are C08 violations wherever they occur
	for i := range w.Viol {
		if w.Viol[i].Rule == "panic" {
			w.Viol[i].Prop = "C08"
			w.Viol[i].Sig = panicSig(w.Viol[i].Detail)
		}
	}
	finish(w, p, r)
	r.Judged = w.Stats["judged:C08"]
	hows := map[string]int{}
	for _, op := range p.Ops {
		if op.Kind == "hostile" {
			hows[op.S["how"]+"/"+op.Proto]++
		}
	}
	var ks []string
	for k := range hows {
		ks = append(ks, k)
	}
	r.Class = fmt.Sprintf("L%d/%v", len(p.Cfg.Listens), sortedKeys(hows))
	_ = ks
	s, _ := json.Marshal(map[string]interface{}{"deliveries": len(p.Ops), "hostile_kinds": hows, "first_delivery": clip(string(p.Ops[0].Data), 240)})
	r.Sample = s
	return r
}

// panicSig: the function that panicked (first frame of the program under test).
func panicSig(detail string) string {
	lines := strings.Split(detail, "\n")
	for i := 0; i+1 < len(lines); i++ {
		f := strings.TrimSpace(lines[i+1])
		j := strings.Index(f, ".go:")
		if j < 0 || !strings.HasPrefix(f, "/") {
			continue
		}
		path := f[:j+3]
		slash := strings.LastIndexByte(path, '/')
		if strings.HasSuffix(path[:slash], "/src") && !strings.HasPrefix(path[slash+1:], "zz_") {
			fn := lines[i]
			if k := strings.LastIndexByte(fn, '('); k > 0 {
				fn = fn[:k]
			}
			return "at=" + strings.TrimPrefix(fn, "github.com/ochinchina/sipproxy.")
		}
	}
	return ""
}

func init() {
	register("C08", genRobustPlan, execRobust)
}
