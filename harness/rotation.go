//go:build verif

package main

import (
	"bufio"
	"bytes"
	"encoding/json"
	"fmt"
	"sort"
	"strings"
	"testing"
	"time"

	"github.com/anishathalye/porcupine"

	"verif/sim/simnet"
	"verif/sim/simrt"
	"verif/sim/sipwire"
)

// C05 (ii): dispatches racing with membership changes made from other
// threads. One simulated goroutine dispatches through a real round-robin set
// the way the message loop does while one or two other simulated goroutines
// add and remove real UDP backends on the simulated network; the
// interleaving of the lock acquisitions inside one dispatch with the
// membership operations is decided by the scheduler. The recorded history
// (invoke / return stamped with a global sequence number) is checked with
// porcupine against a sequential specification written from the statement.

type rotIn struct {
	Kind string // add | remove | dispatch
	Addr string
}

type rotState struct {
	S []string // sorted
	L []string // dispatch targets since the last change
}

func (s rotState) key() string { return strings.Join(s.S, ",") + "|" + strings.Join(s.L, ",") }

var rotationModel = porcupine.Model{
	Init: func() interface{} { return rotState{} },
	Step: func(state, input, output interface{}) (bool, interface{}) {
		st := state.(rotState)
		in := input.(rotIn)
		out := output.(string)
		switch in.Kind {
		case "add":
			S := append(append([]string(nil), st.S...), in.Addr)
			sort.Strings(S)
			return true, rotState{S: S}
		case "remove":
			var S []string
			for _, a := range st.S {
				if a != in.Addr {
					S = append(S, a)
				}
			}
			if len(S) == len(st.S) {
				return true, st // not registered: nothing changes, the rotation goes on
			}
			return true, rotState{S: S}
		}
		// dispatch
		k := len(st.S)
		if k == 0 {
			return out == "none", st
		}
		member := false
		for _, a := range st.S {
			if a == out {
				member = true
			}
		}
		if !member {
			return false, st
		}
		// not among the last min(|L|, k-1) targets
		n := len(st.L)
		m := k - 1
		if n < m {
			m = n
		}
		for _, t := range st.L[n-m:] {
			if t == out {
				return false, st
			}
		}
		if n >= k && st.L[n-k] != out {
			return false, st
		}
		L := append(append([]string(nil), st.L...), out)
		if len(L) > 2*k {
			L = L[len(L)-2*k:]
		}
		return true, rotState{S: st.S, L: L}
	},
	Equal: func(a, b interface{}) bool { return a.(rotState).key() == b.(rotState).key() },
	DescribeOperation: func(input, output interface{}) string {
		in := input.(rotIn)
		if in.Kind == "dispatch" {
			return "dispatch -> " + output.(string)
		}
		return in.Kind + "(" + in.Addr + ")"
	},
}

var rotAddrs = []string{"10.2.50.1:5070", "10.2.50.2:5070", "10.2.50.3:5070", "10.2.50.4:5070", "10.2.50.5:5070"}

func genRotationPlan(seed uint64, tier string) *Plan {
	g := newGen(seed)
	if g.chance(35) {
		// C05 (i): through the proxy, membership by name resolution, with the rotation oracle
		p := genMembershipPlan(seed, tier)
		p.Variant = "through-the-proxy"
		if g.chance(60) {
			// "dispatches racing with membership changes made from other threads": unpinned requests that arrive at the
			// very instant the resolver polls
			for i := range p.Ops {
				if p.Ops[i].Kind == "poll" {
					p.Ops[i].I["race"] = g.pick2(0, 1, 3, 6)
				}
			}
		}
		return p
	}
	p := &Plan{Variant: "racing-threads"}
	switch g.intn(4) {
	case 0:
		p.Sched = simrt.SchedPCT
		p.PCTDepth = 1 + g.intn(3)
	case 1:
		p.Sched = simrt.SchedRunBlock
	default:
		p.Sched = simrt.SchedRandom
	}
	c := &p.Cfg
	c.Name = "svc.example.com"
	c.Listens = []ListenCfg{{Addr: "10.0.0.1", UDP: 5060, Backends: []string{"udp://10.2.0.1:5070"}}}
	c.Faults = simnetNoFaults()
	// the write towards the backend whose turn it is fails now and then: the turn is used up all the same
	c.Faults.UDPWriteErrPct = g.pick2(0, 0, 10, 35)
	universe := 4
	total := g.rng(2, 7)
	if g.chance(25) {
		universe = 5
		total = g.rng(8, 60)
		if tier == "thorough" && g.chance(40) {
			total = g.rng(60, 400)
		}
	}
	members := 1 + g.intn(2)
	present := map[string]bool{}
	// initial backends (added sequentially by goroutine 0 before the race starts)
	for i := 0; i < universe; i++ {
		if g.chance(50) {
			present[rotAddrs[i]] = true
			p.Ops = append(p.Ops, Op{Kind: "init", S: map[string]string{"addr": rotAddrs[i]}})
		}
	}
	// each membership goroutine owns a disjoint part of the universe
	owner := map[string]int{}
	for i := 0; i < universe; i++ {
		owner[rotAddrs[i]] = 1 + i%members
	}
	for i := 0; i < total; i++ {
		if g.chance(55) {
			p.Ops = append(p.Ops, Op{Kind: "dispatch", I: map[string]int{"g": 0}})
			continue
		}
		a := rotAddrs[g.intn(universe)]
		if !present[a] && g.chance(12) {
			// an address that is not registered is withdrawn (the resolver does that for an address whose backend
			// could not be created): a no-op
			p.Ops = append(p.Ops, Op{Kind: "remove", S: map[string]string{"addr": a, "absent": "1"}, I: map[string]int{"g": owner[a]}})
			continue
		}
		kind := "add"
		if present[a] {
			kind = "remove"
		}
		present[a] = !present[a]
		p.Ops = append(p.Ops, Op{Kind: kind, S: map[string]string{"addr": a}, I: map[string]int{"g": owner[a]}})
	}
	return p
}

func execRotation(t *testing.T, p *Plan) *Result {
	if p.Variant == "through-the-proxy" {
		return execMembership(t, p)
	}
	r := &Result{}
	var history []porcupine.Operation
	w := runWorld(t, p, func(w *World) {
		v := func(rule, id, sig, format string, a ...interface{}) {
			w.Viol = append(w.Viol, Violation{Prop: "C05", Rule: rule, Msg: id, Sig: sig, Detail: fmt.Sprintf(format, a...)})
		}
		var rb *RoundRobinBackend
		h := &rotHarness{w: w, ops: make([]porcupine.Operation, 0, len(p.Ops)+8)}
		h.ops = h.ops[:cap(h.ops)]
		scripts := map[int][]*Op{}
		var inits []*Op
		for i := range p.Ops {
			op := &p.Ops[i]
			if op.Kind == "init" {
				inits = append(inits, op)
				continue
			}
			scripts[op.I["g"]] = append(scripts[op.I["g"]], op)
		}
		// set-up: the initial members, sequentially
		ready := false
		w.K.Spawn("setup", false, func() {
			rb = NewRoundRobinBackend()
			for _, op := range inits {
				if h.isPresent(op.S["addr"]) {
					continue
				}
				h.setPresent(op.S["addr"], true)
				b, err := NewUDPBackend("10.0.0.1:0", op.S["addr"])
				if err != nil {
					return
				}
				call := h.stamp()
				rb.AddBackend(b)
				h.record(porcupine.Operation{ClientId: 0, Input: rotIn{"add", op.S["addr"]}, Call: call, Output: "", Return: h.stamp()})
			}
			ready = true
		})
		w.K.RunIdle()
		if !ready {
			w.K.Failures = append(w.K.Failures, "harness: rotation set-up failed")
			return
		}
		var gids []int
		for gi := range scripts {
			gids = append(gids, gi)
		}
		sort.Ints(gids)
		for _, gi := range gids {
			gi, script := gi, scripts[gi]
			// messages are prepared before the race starts
			msgs := make([]*Message, len(script))
			for k, op := range script {
				if op.Kind != "dispatch" {
					continue
				}
				id := fmt.Sprintf("disp%d", k)
				b := &sipwire.Builder{Start: "OPTIONS sip:u@svc.example.com SIP/2.0"}
				b.Add("Via", "SIP/2.0/UDP 10.1.0.1:5060;branch=z9hG4bK"+id)
				b.Add("From", "<sip:a@x.test>;tag=1")
				b.Add("To", "<sip:u@svc.example.com>")
				b.Add("Call-ID", "cid-"+id)
				b.Add("CSeq", "1 OPTIONS")
				b.Add("X-Sim-Id", id)
				msg, err := ParseMessage(bufio.NewReader(bytes.NewReader(b.Bytes())))
				if err != nil {
					w.K.Failures = append(w.K.Failures, "harness: "+err.Error())
					return
				}
				msgs[k] = msg
			}
			w.K.Spawn(fmt.Sprintf("racer%d", gi), false, func() {
				for k, op := range script {
					addr := op.S["addr"]
					switch op.Kind {
					case "dispatch":
						from := h.emitted()
						ffrom := h.failed()
						call := h.stamp()
						rb.Send(msgs[k])
						ret := h.stamp()
						out := h.targetOf(fmt.Sprintf("disp%d", k), from, ffrom)
						h.record(porcupine.Operation{ClientId: gi, Input: rotIn{"dispatch", ""}, Call: call, Output: out, Return: ret})
					case "add":
						if h.isPresent(addr) {
							continue // a minimised plan may have lost the matching remove: an address is never added twice
						}
						h.setPresent(addr, true)
						be, err := NewUDPBackend("10.0.0.1:0", addr)
						if err != nil {
							return
						}
						call := h.stamp()
						rb.AddBackend(be)
						h.record(porcupine.Operation{ClientId: gi, Input: rotIn{"add", addr}, Call: call, Output: "", Return: h.stamp()})
					case "remove":
						if !h.isPresent(addr) && op.S["absent"] == "" {
							continue
						}
						h.setPresent(addr, false)
						call := h.stamp()
						rb.RemoveBackend(addr)
						h.record(porcupine.Operation{ClientId: gi, Input: rotIn{"remove", addr}, Call: call, Output: "", Return: h.stamp()})
					}
				}
				h.finished()
			})
		}
		w.K.Settle(time.Minute)
		if w.dead() {
			return
		}
		history = h.ops[:h.n]
		done := h.done
		if done != len(scripts) {
			var stuck []string
			for _, g := range w.K.Census() {
				if strings.HasPrefix(g.Name, "racer") && g.State != "exited" {
					stuck = append(stuck, g.Name+" "+g.State)
				}
			}
			v("operation-did-not-return", "", "", "%d of %d racing goroutines did not finish: %v", len(scripts)-done, len(scripts), stuck)
			return
		}
		w.Stats["judged:C05"] += len(history)
		w.Stats["history-operations"] += len(history)
		// overlapping operations?
		overlap := 0
		for i := range history {
			for j := range history {
				if i < j && history[i].ClientId != history[j].ClientId && history[i].Call < history[j].Return && history[j].Call < history[i].Return {
					overlap++
				}
			}
		}
		w.Stats["probe:overlapping-operation-pairs"] += overlap
		res, info := porcupine.CheckOperationsVerbose(rotationModel, history, 30*time.Second)
		_ = info
		switch res {
		case porcupine.Illegal:
			var lines []string
			sorted := append([]porcupine.Operation(nil), history...)
			sort.Slice(sorted, func(i, j int) bool { return sorted[i].Call < sorted[j].Call })
			for _, o := range sorted {
				lines = append(lines, fmt.Sprintf("[%d-%d] g%d %s", o.Call, o.Return, o.ClientId, rotationModel.DescribeOperation(o.Input, o.Output)))
			}
			sig := "dispatch"
			for _, o := range sorted {
				if o.Input.(rotIn).Kind == "dispatch" && o.Output.(string) == "none" {
					sig = "dispatch-went-nowhere"
				}
			}
			v("history-not-linearizable", "", sig, "no sequential order of the %d operations (invoke-return stamps in brackets) satisfies the rotation specification:\n%s", len(history), strings.Join(lines, "\n"))
		case porcupine.Unknown:
			w.stat("inconclusive:porcupine-timeout")
		default:
			w.stat("histories-linearizable")
		}
	})
	finish(w, p, r)
	r.Judged = w.Stats["judged:C05"]
	nd, nm := 0, 0
	for _, op := range p.Ops {
		if op.Kind == "dispatch" {
			nd++
		} else {
			nm++
		}
	}
	r.Class = fmt.Sprintf("race/d%d/m%d/sched%d", nd, nm, p.Sched)
	var lines []string
	for i, o := range history {
		if i >= 14 {
			break
		}
		lines = append(lines, fmt.Sprintf("[%d-%d] g%d %s", o.Call, o.Return, o.ClientId, rotationModel.DescribeOperation(o.Input, o.Output)))
	}
	s, _ := json.Marshal(map[string]interface{}{"variant": p.Variant, "operations": len(history), "history_head": lines})
	r.Sample = s
	return r
}

// rotHarness holds what the racing harness goroutines share. They run
// serialised, but without happens-before edges between them (that is the
// point: the race detector must see the program's own synchronisation only),
// so their own bookkeeping is kept out of the detector's sight.
type rotHarness struct {
	w       *World
	ops     []porcupine.Operation
	n       int
	seq     int64
	done    int
	present [8]bool
}

//go:norace
func (h *rotHarness) stamp() int64 { h.seq++; return h.seq }

//go:norace
func (h *rotHarness) record(op porcupine.Operation) {
	if h.n < len(h.ops) {
		h.ops[h.n] = op
		h.n++
	}
}

//go:norace
func (h *rotHarness) finished() { h.done++ }

func rotIndex(addr string) int {
	for i, a := range rotAddrs {
		if a == addr {
			return i
		}
	}
	return 7
}

//go:norace
func (h *rotHarness) isPresent(addr string) bool { return h.present[rotIndex(addr)] }

//go:norace
func (h *rotHarness) setPresent(addr string, v bool) { h.present[rotIndex(addr)] = v }

//go:norace
func (h *rotHarness) emitted() int { return len(h.w.N.Emissions) }

// targetOf: where the datagram carrying id went ("none", or a+b if sent twice).
//
//go:norace
func (h *rotHarness) targetOf(id string, from, ffrom int) string {
	out := "none"
	needle := "X-Sim-Id: " + id + "\r\n"
	scan := func(ems []*simnet.Emission, from int) {
		for i := from; i < len(ems); i++ {
			e := ems[i]
			if containsNoRace(e.Data, needle) {
				if out != "none" {
					out = out + "+" + e.Dst
				} else {
					out = e.Dst
				}
			}
		}
	}
	// a dispatch whose datagram write failed was still directed at its backend (its turn is used up): failed writes
	// are in Emissions too, marked
	scan(h.w.N.Emissions, from)
	_ = ffrom
	return out
}

//go:norace
func (h *rotHarness) failed() int { return len(h.w.N.FailedUDP) }

//go:norace
func containsNoRace(b []byte, s string) bool {
	for i := 0; i+len(s) <= len(b); i++ {
		j := 0
		for j < len(s) && b[i+j] == s[j] {
			j++
		}
		if j == len(s) {
			return true
		}
	}
	return false
}

func init() {
	register("C05", genRotationPlan, execRotation)
}
