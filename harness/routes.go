//go:build verif

package main

import (
	"encoding/json"
	"fmt"
	"strconv"
	"strings"
	"testing"
	"time"

	"verif/sim/sipwire"
)

// C18: static route lookup has fixed precedence and a stable answer. The
// nondeterminism is Go's map iteration order inside the lookup; rule R5 puts
// it behind the seed (MapPerm), so "differently from one lookup to the next"
// is a replayable schedule. (i) in-package: a simulated goroutine asks the
// table the real configuration code built, 50 times per host; (ii) end to
// end: requests whose To host ranges over the universe, repeated.

var routeHostUniverse = []string{"example.com", "a.example.com", "b.a.example.com", "aXexample.com", "example.org", "example.", "corp.test", "b.corp.test", "x.test", "test", "default", "*", "other.invalid", "a.example.comX", ".example.com",
	"exampleXcom", "example", "examples.org", "examplecom", "corpXtest", "Xtest", "atest", "example.com.", "EXAMPLE.COM",
	"10.9.8.7", "10.9.1.1", "10.8.8.7", "10.98.8.7", "10.9", "1.8.7"}

func genRoutesPlan(seed uint64, tier string) *Plan {
	g := newGen(seed)
	p := &Plan{Sched: g.intn(2), MapPerm: true}
	c := &p.Cfg
	c.Name = "svc.example.com"
	c.Listens = []ListenCfg{{Addr: "10.0.0.1", UDP: 5060, TCP: 5060}}
	n := 1 + g.intn(4)
	if tier == "thorough" && g.chance(30) {
		n = 4 + g.intn(6)
	}
	c.Hosts = []HostCfg{{Name: "nh1.hops.test", IP: "10.3.0.1"}, {Name: "nh2.hops.test", IP: "10.3.0.2"}}
	c.Routes = genRouteTable(g, c, n)
	for _, ip := range topo.hops {
		c.TCPSinks = append(c.TCPSinks, hostPort(ip, 5060), hostPort(ip, 5080), hostPort(ip, 45060), hostPort(ip, 65535))
	}
	c.Faults.MinLat = 50 * time.Microsecond
	c.Faults.MaxLat = time.Millisecond
	// end-to-end probes: each To host several times
	hosts := append([]string{}, routeHostUniverse...)
	for i := 0; i < 6; i++ {
		h := hosts[g.intn(len(hosts))]
		for rep := 0; rep < 3; rep++ {
			id := g.nextID()
			b := &sipwire.Builder{Start: "OPTIONS sip:nobody@other.invalid SIP/2.0"}
			b.Add("Via", viaEntry("UDP", "10.1.0.1", 5060, ";branch=z9hG4bK"+g.alnum(6, 10)))
			b.Add("From", "<sip:a@caller.test>;tag="+g.alnum(3, 6))
			b.Add("To", "<sip:"+g.user0()+"@"+h+">")
			b.Add("Call-ID", "cid-"+id)
			b.Add("CSeq", "1 OPTIONS")
			b.Add("X-Sim-Id", id)
			p.Ops = append(p.Ops, Op{Kind: "msg", ID: id, Proto: "udp", SrcIP: "10.1.0.1", SrcPort: 5060, Listen: 0, Data: b.Bytes(), Settle: true})
		}
	}
	p.Ops = append(p.Ops, Op{Kind: "lookups", I: map[string]int{"reps": 50}})
	return p
}

func execRoutes(t *testing.T, p *Plan) *Result {
	r := &Result{}
	w := runWorld(t, p, func(w *World) {
		st := newRelayState(w, &p.Cfg)
		for i := range p.Ops {
			op := &p.Ops[i]
			switch op.Kind {
			case "msg":
				st.inject(op)
				if !w.K.Settle(10 * time.Second) {
					return
				}
				st.judge(op)
			case "lookups":
				reps := op.I["reps"]
				type ans struct {
					proto, host string
					port        int
					err         bool
				}
				results := map[string][]ans{}
				done := false
				yamlText := yamlOf(&p.Cfg)
				w.K.Spawn("lookup", true, func() {
					config, err := loadConfigFromReader(strings.NewReader(yamlText))
					if err != nil {
						return
					}
					table := createPreConfigRoute(config.Proxies[0])
					for _, h := range routeHostUniverse {
						for i := 0; i < reps; i++ {
							proto, host, port, err := table.FindRoute(h)
							results[h] = append(results[h], ans{proto, host, port, err != nil})
						}
					}
					done = true
				})
				w.K.RunIdle()
				if !done {
					w.K.Failures = append(w.K.Failures, "harness: lookup goroutine did not finish")
					return
				}
				// the same table looked up from several goroutines at once (every listen entry of a service has its own
				// message loop, all share one table): whatever synchronisation the table has is interleaved by the
				// scheduler; every answer must be the host's answer all the same
				type cans struct {
					h string
					a ans
				}
				nthreads := 3
				conc := make([][]cans, nthreads)
				finished := 0
				var shared *PreConfigRoute
				w.K.Spawn("lookup-setup", true, func() {
					config, err := loadConfigFromReader(strings.NewReader(yamlText))
					if err == nil {
						shared = createPreConfigRoute(config.Proxies[0])
					}
				})
				w.K.RunIdle()
				if shared == nil {
					w.K.Failures = append(w.K.Failures, "harness: shared table not built")
					return
				}
				for ti := 0; ti < nthreads; ti++ {
					ti := ti
					w.K.Spawn(fmt.Sprintf("lookup%d", ti), true, func() {
						for rep := 0; rep < 4; rep++ {
							for k := range routeHostUniverse {
								h := routeHostUniverse[(k*(ti+1)+ti*5+rep)%len(routeHostUniverse)]
								proto, host, port, err := shared.FindRoute(h)
								conc[ti] = append(conc[ti], cans{h, ans{proto, host, port, err != nil}})
							}
						}
						finished++
					})
				}
				w.K.RunIdle()
				if finished != nthreads {
					st.v("C18", "lookup-did-not-return", "", "", "%d of %d concurrent lookup goroutines did not finish", nthreads-finished, nthreads)
					return
				}
				for ti := range conc {
					for _, ca := range conc[ti] {
						class, allowed := refStaticRoute(st.entries, ca.h)
						w.Stats["judged:C18"]++
						ok := class == "none" && ca.a.err
						for _, e := range allowed {
							if !ca.a.err && ca.a.proto == e.Proto && ca.a.host == e.Host && ca.a.port == e.Port {
								ok = true
							}
						}
						if !ok || (len(results[ca.h]) > 0 && ca.a != results[ca.h][0] && len(allowed) <= 1) {
							st.v("C18", "wrong-route-answer", ca.h, "class="+class+";concurrent", "looked up from %d goroutines at once, host %q (class %s) was answered %s %s:%d err=%v; admissible %v, answered alone %v", nthreads, ca.h, class, ca.a.proto, ca.a.host, ca.a.port, ca.a.err, allowed, results[ca.h][0])
							break
						}
					}
				}
				for _, h := range routeHostUniverse {
					class, allowed := refStaticRoute(st.entries, h)
					w.Stats["judged:C18"]++
					w.stat("lookup-class:" + class)
					first := results[h][0]
					for i, a := range results[h] {
						if a != first {
							st.v("C18", "unstable-answer", h, "class="+class, "lookup %d of host %q answered %v, lookup 0 answered %v (table %v)", i, h, a, first, st.entries)
							break
						}
					}
					a := first
					if class == "none" {
						if !a.err {
							st.v("C18", "answer-for-unroutable-host", h, "", "host %q matches no entry (table %v) but lookup answered %s %s:%d", h, st.entries, a.proto, a.host, a.port)
						}
						continue
					}
					ok := false
					for _, e := range allowed {
						if !a.err && a.proto == e.Proto && a.host == e.Host && a.port == e.Port {
							ok = true
						}
					}
					if !ok {
						st.v("C18", "wrong-route-answer", h, "class="+class, "host %q (class %s) answered %s %s:%d err=%v, admissible %v", h, class, a.proto, a.host, a.port, a.err, allowed)
					}
					if class == "wildcard" && len(allowed) > 1 {
						w.stat("probe:overlapping-wildcards")
					}
				}
			}
			if w.dead() {
				return
			}
		}
	})
	finish(w, p, r)
	r.Judged = w.Stats["judged:C18"]
	var pats []string
	for _, e := range flattenRoutes(p.Cfg.Routes) {
		pats = append(pats, e.Pattern+"->"+e.Proto+":"+e.Host+":"+strconv.Itoa(e.Port))
	}
	r.Class = strings.Join(pats, ",")
	s, _ := json.Marshal(map[string]interface{}{"route_table": pats, "hosts_looked_up": len(routeHostUniverse), "repetitions": 50, "end_to_end_requests": len(p.Ops) - 1, "map_order": "permuted from the seed at every iteration"})
	r.Sample = s
	_ = fmt.Sprint
	return r
}

func init() {
	register("C18", genRoutesPlan, execRoutes)
}
