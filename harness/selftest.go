//go:build verif

package main

// SIMSELF: the simulator checks itself. The unchanged proxy never calls the
// deadline, connected-datagram and half-close parts of package net, so worlds
// built from it would never execute simnet's versions of them; they exist so
// that a changed proxy that starts using them is simulated faithfully instead
// of failing to build (exit 2) or meeting no-ops. This world drives them from
// harness goroutines and reports any deviation from the behaviour of real
// sockets as an infrastructure failure. Run by `check.py SIMSELF` and once by
// every check (first worker chunk).

import (
	"errors"
	"fmt"
	"io"
	"net"
	"os"
	"syscall"
	"testing"
	"time"

	"verif/sim/simatomic"
	"verif/sim/simnet"
	"verif/sim/simrt"
	"verif/sim/simsync"
)

func init() {
	register("SIMSELF", func(seed uint64, tier string) *Plan {
		p := &Plan{Sched: int(seed % 3), PCTDepth: 2}
		p.Cfg.Name = "svc.example.com"
		p.Cfg.Listens = []ListenCfg{{Addr: "10.0.0.1", UDP: 5060, Backends: []string{"udp://10.2.0.1:5070"}}}
		p.Cfg.Faults.MinLat = 100 * time.Microsecond
		p.Cfg.Faults.MaxLat = 2 * time.Millisecond
		if seed%2 == 1 {
			p.Cfg.Knobs = map[string]int{"recvCostUs": 300} // a slow node: see step 7
		}
		return p
	}, func(t *testing.T, p *Plan) *Result {
		r := &Result{}
		w := runWorld(t, p, func(w *World) { simSelfTest(w) })
		finish(w, p, r)
		r.Judged = w.Stats["judged:SIMSELF"]
		return r
	})
}

func simSelfTest(w *World) {
	n := w.N
	bad := func(format string, a ...interface{}) {
		w.K.Failures = append(w.K.Failures, "simself: "+fmt.Sprintf(format, a...))
	}
	isTimeout := func(err error) bool {
		var ne net.Error
		return err != nil && errors.As(err, &ne) && ne.Timeout() && errors.Is(err, os.ErrDeadlineExceeded)
	}
	done := 0
	step := func(name string, fn func()) {
		w.K.Spawn("self-"+name, true, func() { fn(); done++ })
	}

	// 1. connected datagram socket: ICMP unreachable is reported once by the next write, then the socket works again
	var got [][]byte
	step("udp-connected", func() {
		c, err := simnet.DialUDP("udp", &net.UDPAddr{IP: net.ParseIP("10.0.0.1")}, &net.UDPAddr{IP: net.ParseIP("10.9.0.1"), Port: 7000})
		if err != nil {
			bad("DialUDP: %v", err)
			return
		}
		if c.RemoteAddr() == nil || c.RemoteAddr().String() != "10.9.0.1:7000" {
			bad("RemoteAddr of a connected socket: %v", c.RemoteAddr())
		}
		if _, err := c.WriteToUDP([]byte("x"), &net.UDPAddr{IP: net.ParseIP("10.9.0.1"), Port: 7000}); !errors.Is(err, net.ErrWriteToConnected) {
			bad("WriteToUDP on a connected socket: %v", err)
		}
		if _, err := c.Write([]byte("one")); err != nil {
			bad("first write to a closed port must succeed locally: %v", err)
		}
		simrt.Sleep(50 * time.Millisecond) // the ICMP answer comes back
		if _, err := c.Write([]byte("two")); !errors.Is(err, syscall.ECONNREFUSED) {
			bad("write after ICMP unreachable: want ECONNREFUSED, got %v", err)
		}
		simrt.Sleep(200 * time.Millisecond) // the peer binds meanwhile (below)
		if _, err := c.Write([]byte("three")); err != nil {
			bad("the error is reported once; next write: %v", err)
		}
		// a datagram from somebody else is not delivered to a connected socket; the peer's is
		c.SetReadDeadline(time.Now().Add(300 * time.Millisecond))
		buf := make([]byte, 100)
		k, from, err := c.ReadFromUDP(buf)
		if err != nil || string(buf[:k]) != "from-peer" || from.Port != 7000 {
			bad("read on connected socket: %q %v %v", buf[:k], from, err)
		}
		t0 := time.Now()
		_, _, err = c.ReadFromUDP(buf)
		if !isTimeout(err) || time.Since(t0) <= 0 || time.Since(t0) > 300*time.Millisecond {
			bad("read deadline: err=%v after %v", err, time.Since(t0))
		}
		// an expired write deadline fails the write and sends nothing
		c.SetWriteDeadline(time.Now().Add(-time.Second))
		if _, err := c.Write([]byte("late")); !isTimeout(err) {
			bad("expired write deadline: %v", err)
		}
		c.SetWriteDeadline(time.Time{})
		if _, err := c.Write([]byte("four")); err != nil {
			bad("write after clearing the deadline: %v", err)
		}
		c.Close()
		if err := c.SetReadDeadline(time.Now()); err == nil {
			bad("SetReadDeadline on a closed socket must fail")
		}
	})
	w.K.Settle(100 * time.Millisecond)
	w.K.Advance(150 * time.Millisecond)
	var peerSock *simnet.UDPSock
	peerSock = n.ActorUDP("10.9.0.1", 7000, func(from *net.UDPAddr, data []byte) {
		got = append(got, append([]byte{}, data...))
		if string(data) == "three" {
			n.ActorUDP("10.9.0.2", 7001, nil).SendExact(from, []byte("from-stranger"), time.Millisecond)
			peerSock.SendExact(from, []byte("from-peer"), 2*time.Millisecond)
		}
	})
	w.K.Advance(2 * time.Second)
	if len(got) != 2 || string(got[0]) != "three" || string(got[1]) != "four" {
		bad("connected socket delivered %q, want [three four]", got)
	}

	// 2. TCP deadlines and half-close
	var srvGot []byte
	var srvEnd *simnet.TCPEnd
	n.ActorListen("10.9.0.3", 7100, func(end *simnet.TCPEnd) {
		srvEnd = end
		end.OnData = func(b []byte) { srvGot = append(srvGot, b...) }
	})
	phase := 0
	step("tcp", func() {
		c, err := simnet.DialTCP("tcp", nil, &net.TCPAddr{IP: net.ParseIP("10.9.0.3"), Port: 7100})
		if err != nil {
			bad("DialTCP: %v", err)
			return
		}
		buf := make([]byte, 64)
		c.SetReadDeadline(time.Now().Add(40 * time.Millisecond))
		t0 := time.Now()
		if _, err := c.Read(buf); !isTimeout(err) || time.Since(t0) != 40*time.Millisecond {
			bad("tcp read deadline: err=%v after %v", err, time.Since(t0))
		}
		c.SetReadDeadline(time.Time{})
		c.SetWriteDeadline(time.Now().Add(-time.Nanosecond))
		if k, err := c.Write([]byte("late")); !isTimeout(err) || k != 0 {
			bad("tcp expired write deadline: n=%d err=%v", k, err)
		}
		c.SetWriteDeadline(time.Now().Add(time.Hour))
		if _, err := c.Write([]byte("hello")); err != nil {
			bad("tcp write within deadline: %v", err)
		}
		phase = 1
		// the peer half-closes: end of stream here, but our writes still reach it
		if _, err := c.Read(buf); err != io.EOF {
			bad("read after the peer's half-close: %v", err)
		}
		if _, err := c.Write([]byte(" world")); err != nil {
			bad("write to a half-closed peer must succeed: %v", err)
		}
		c.Close()
		if err := c.SetWriteDeadline(time.Time{}); err == nil || !errors.Is(err, net.ErrClosed) {
			bad("SetWriteDeadline on a closed connection: %v", err)
		}
	})
	for i := 0; i < 20 && phase == 0; i++ {
		w.K.Advance(10 * time.Millisecond)
	}
	if srvEnd == nil {
		bad("tcp: no connection accepted")
		return
	}
	srvEnd.CloseWrite()
	w.K.Advance(time.Second)
	if string(srvGot) != "hello world" {
		bad("tcp peer received %q, want \"hello world\"", srvGot)
	}
	// 3. backpressure: a peer that does not read takes `window` bytes; the rest of a write blocks until it reads again
	// or the writer's deadline passes (a partial write and a timeout; the connection stays open)
	var slowGot []byte
	var slowEnd *simnet.TCPEnd
	n.ActorListen("10.9.0.4", 7200, func(end *simnet.TCPEnd) {
		slowEnd = end
		end.OnData = func(b []byte) { slowGot = append(slowGot, b...) }
	})
	phase3 := 0
	step("tcp-backpressure", func() {
		c, err := simnet.DialTCP("tcp", nil, &net.TCPAddr{IP: net.ParseIP("10.9.0.4"), Port: 7200})
		if err != nil {
			bad("DialTCP: %v", err)
			return
		}
		phase3 = 1
		simrt.Sleep(10 * time.Millisecond) // the harness stalls the peer now (window 10 bytes, 2 s)
		t0 := time.Now()
		c.SetWriteDeadline(time.Now().Add(300 * time.Millisecond))
		k, err := c.Write([]byte("0123456789abcdefghijklmno"))
		if k != 10 || !isTimeout(err) || time.Since(t0) != 300*time.Millisecond {
			bad("write to a stalled peer with a deadline: n=%d err=%v after %v (want 10, timeout, 300ms)", k, err, time.Since(t0))
		}
		c.SetWriteDeadline(time.Time{})
		t1 := time.Now()
		k, err = c.Write([]byte("PQRSTUVWXYZ"))
		if k != 11 || err != nil || time.Since(t1) < time.Second {
			bad("blocking write to a stalled peer: n=%d err=%v after %v (want 11, nil, when the peer reads again)", k, err, time.Since(t1))
		}
		k, err = c.Write([]byte("!"))
		if k != 1 || err != nil {
			bad("write after the peer reads again: n=%d err=%v", k, err)
		}
		c.Close()
	})
	for i := 0; i < 20 && phase3 == 0; i++ {
		w.K.Advance(time.Millisecond)
	}
	if slowEnd == nil {
		bad("backpressure: no connection accepted")
		return
	}
	slowEnd.Stall(2*time.Second, 10)
	w.K.Advance(5 * time.Second)
	if string(slowGot) != "0123456789PQRSTUVWXYZ!" {
		bad("stalled peer received %q, want \"0123456789PQRSTUVWXYZ!\"", slowGot)
	}
	// 4. the shims of sync.Map, sync.Pool and sync/atomic (the unchanged proxy uses two atomic flags and neither Map nor
	// Pool): same results as the real ones, Range in canonical order, Pool hands out what was put or something new
	step("sync-shims", func() {
		var m simsync.Map
		for _, k := range []string{"d", "b", "a", "c"} {
			m.Store(k, len(k))
		}
		m.Delete("c")
		if v, ok := m.LoadOrStore("b", 7); !ok || v.(int) != 1 {
			bad("Map.LoadOrStore of a present key: %v %v", v, ok)
		}
		var seen []string
		m.Range(func(k, v any) bool { seen = append(seen, k.(string)); return true })
		if !w.P.MapPerm && fmt.Sprint(seen) != "[a b d]" || len(seen) != 3 {
			bad("Map.Range visited %v, want a b d", seen)
		}
		made := 0
		pool := simsync.Pool{New: func() any { made++; return new(int) }}
		a := pool.Get().(*int)
		b := pool.Get().(*int)
		if a == b || made != 2 {
			bad("Pool: two Gets without a Put returned the same item or made %d", made)
		}
		pool.Put(a)
		c := pool.Get().(*int)
		d := pool.Get().(*int)
		if c == d || c == b || d == b || (c != a && d != a && made != 4) || made > 4 {
			bad("Pool: items handed out twice or made out of thin air (made=%d)", made)
		}
		var flag int32
		var cnt simatomic.Int64
		if !simatomic.CompareAndSwapInt32(&flag, 0, 1) || simatomic.CompareAndSwapInt32(&flag, 0, 2) || simatomic.LoadInt32(&flag) != 1 {
			bad("atomic compare-and-swap")
		}
		if cnt.Add(5) != 5 || cnt.Load() != 5 || simatomic.AddInt32(&flag, 2) != 3 {
			bad("atomic add")
		}
	})
	// 5. a check-then-act over an atomic flag by two goroutines: whether both get through is the scheduler's decision
	// (counted as a probe: over a batch of worlds both outcomes must occur)
	var gate int32
	var through simatomic.Int32
	for i := 0; i < 2; i++ {
		step("atomic-cta", func() {
			if simatomic.LoadInt32(&gate) == 0 {
				simatomic.StoreInt32(&gate, 1)
				through.Add(1)
			}
		})
	}
	w.K.Advance(time.Millisecond)
	if n := through.Load(); n == 2 {
		w.Stats["probe:atomic-check-then-act-both-through"]++
	} else if n == 1 {
		w.Stats["probe:atomic-check-then-act-one-through"]++
	} else {
		bad("atomic check-then-act: %d goroutines got through", n)
	}
	// 6. time.AfterFunc (rule R8): the callback is a simulated goroutine started at the timer's instant; Stop and Reset
	// are the real timer's
	var mu simsync.Mutex
	var firedAt []time.Duration
	step("afterfunc", func() {
		t0 := time.Now()
		note := func() { mu.Lock(); firedAt = append(firedAt, time.Since(t0)); mu.Unlock() }
		a := simrt.AfterFunc(50*time.Millisecond, note)
		b := simrt.AfterFunc(70*time.Millisecond, note)
		simrt.AfterFunc(0, note)
		if !b.Stop() {
			bad("AfterFunc: Stop of a pending timer returned false")
		}
		simrt.Sleep(60 * time.Millisecond)
		a.Reset(20 * time.Millisecond)
		simrt.Sleep(30 * time.Millisecond)
		mu.Lock()
		if fmt.Sprint(firedAt) != "[0s 50ms 80ms]" {
			bad("AfterFunc callbacks ran at %v, want [0s 50ms 80ms]", firedAt)
		}
		mu.Unlock()
	})
	w.K.Advance(200 * time.Millisecond)
	// 7. a slow node (knob recvCostUs): a consumer that is busy 300 us per receive falls behind a producer that sends
	// every 100 us, 
	ch := make(chan int, 16)
	var lastAt time.Duration
	var maxQueued int
	step("producer", func() {
		for i := 0; i < 5; i++ {
			simrt.Send(ch, i)
			simrt.Sleep(100 * time.Microsecond)
		}
	})
	step("consumer", func() {
		t0 := time.Now()
		for i := 0; i < 5; i++ {
			if simrt.Recv(ch) != i {
				bad("slow node: values out of order")
			}
			if n := len(ch); n > maxQueued {
				maxQueued = n
			}
			lastAt = time.Since(t0)
		}
	})
	w.K.Advance(5 * time.Millisecond)
	if cost := w.P.Cfg.Knobs["recvCostUs"]; cost > 0 {
		if lastAt < 5*300*time.Microsecond || maxQueued < 2 {
			bad("slow node: the last of 5 receives at %v with at most %d queued (want >= 1.5ms, >= 2)", lastAt, maxQueued)
		}
		w.Stats["probe:slow-node-consumer-fell-behind"]++
	} else if lastAt > 450*time.Microsecond || maxQueued > 1 {
		bad("fast node: the last of 5 receives at %v with at most %d queued (want <= 400us, <= 1)", lastAt, maxQueued)
	}
	if done != 9 {
		bad("self-test goroutines finished: %d of 9", done)
	}
	w.Stats["judged:SIMSELF"]++
}
