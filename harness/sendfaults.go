//go:build verif

package main

import (
	"bufio"
	"bytes"
	"encoding/json"
	"fmt"
	"net"
	"strings"
	"testing"
	"time"

	"verif/sim/simnet"
	"verif/sim/simrt"
	"verif/sim/sipwire"
)

// C20: sending survives connection faults without loss or duplication.
// Fault enumeration. Simulated goroutines call Send on the real objects -
// FailOverClientTransport as built by ClientTransportMgr and TCPBackend - for
// 1-3 messages under every cell of
//   {cached inbound connection: absent, healthy, failing on write, closed by the peer}
// x {reconnectable path: absent, fresh, stale connection failing once, destination refusing,
//    destination accepting then resetting (k times)}
// The table is enumerated completely in every run; the byte offset at which a
// failing write fails and the message sizes are drawn from the seed. The same
// faults are also driven end to end (an answer towards a TCP client whose
// connection died; a request towards a TCP next hop whose connection breaks
// in the middle of the write).

var sfPrimary = []string{"absent", "healthy", "failing", "peer-closed"}
var sfSecondary = []string{"absent", "fresh", "stale", "refusing", "reset1", "reset-always", "refusing-then-up"}
var sfBackend = []string{"none", "healthy", "stale", "failing"}
var sfBackendDst = []string{"accepting", "refusing", "reset1", "reset-always"}

func genSendFaultsPlan(seed uint64, tier string) *Plan {
	g := newGen(seed)
	p := &Plan{Sched: g.intn(3), PCTDepth: 1 + g.intn(3)}
	c := &p.Cfg
	c.Name = "svc.example.com"
	c.Listens = []ListenCfg{{Addr: "10.0.0.1", UDP: 5060, TCP: 5060, Backends: []string{"udp://10.2.0.1:5070"}}}
	c.Faults.MinLat = 20 * time.Microsecond
	c.Faults.MaxLat = time.Millisecond
	c.Faults.SegPct = g.pick2(0, 40)
	n := 0
	for _, pr := range sfPrimary {
		for _, se := range sfSecondary {
			n++
			p.Ops = append(p.Ops, Op{Kind: "failover", ID: fmt.Sprintf("fo%d", n), S: map[string]string{"primary": pr, "secondary": se},
				I: map[string]int{"msgs": 1 + g.intn(3), "size": g.pick2(0, 10, 300, 3000, 20000), "offset": g.intn(100000), "cell": n,
					// the messages of one transaction may be minutes apart; the transport is looked up again for each, as the
					// proxy does (the table's once-a-minute clean-up runs inside the lookup)
					"gapS": g.pick2(0, 0, 61, 125, 600)}})
		}
	}
	for _, st := range sfBackend {
		for _, ds := range sfBackendDst {
			n++
			p.Ops = append(p.Ops, Op{Kind: "tcpbackend", ID: fmt.Sprintf("tb%d", n), S: map[string]string{"conn": st, "dst": ds},
				I: map[string]int{"msgs": 1 + g.intn(3), "size": g.pick2(0, 10, 300, 3000, 20000), "offset": g.intn(100000), "cell": n, "viaGroup": g.intn(2)}})
		}
	}
	// datagram client transports: a write fails (message too long for a datagram; the socket's buffer is full) - the
	// send reports it, nothing was sent, and the messages after it go out as usual
	for _, pat := range []string{"ok,ok,ok", "big,ok,ok", "ok,big,ok", "enobufs,ok,ok", "ok,enobufs,ok", "enobufs,enobufs,ok", "big,enobufs,ok", "ok,ok,big"} {
		n++
		p.Ops = append(p.Ops, Op{Kind: "udpsend", ID: fmt.Sprintf("us%d", n), S: map[string]string{"pattern": pat}, I: map[string]int{"size": g.pick2(0, 10, 300, 3000, 20000), "cell": n}})
	}
	// end to end
	for k := 0; k < 3; k++ {
		n++
		p.Ops = append(p.Ops, Op{Kind: "e2e-answer-after-close", ID: fmt.Sprintf("ea%d", n), I: map[string]int{"rport": g.intn(2), "cell": n, "viaport": g.pick2(5060, 5090)}})
		n++
		p.Ops = append(p.Ops, Op{Kind: "e2e-answer-after-close", ID: fmt.Sprintf("er%d", n), I: map[string]int{"rport": g.intn(2), "cell": n, "viaport": g.pick2(5060, 5090), "race": 1}})
		n++
		p.Ops = append(p.Ops, Op{Kind: "e2e-broken-next-hop", ID: fmt.Sprintf("eb%d", n), I: map[string]int{"offset": g.intn(100000), "cell": n, "mode": g.intn(3), "size": g.pick2(0, 200, 5000)}})
	}
	return p
}

// sfReader: every connection of the proxy, accepted or dialled, has the program's own receive loop on it (the proxy
// starts one through its connection-accepted / connection-established callbacks). It is what notices that a peer
// hung up and closes the proxy's side, which the send paths rely on; the cells run the real one.
type sfNullHandler struct{}

func (sfNullHandler) HandleRawMessage(msg *RawMessage) {}
func (sfNullHandler) HandleMessage(msg *Message)       {}

var sfLearn = NewSelfLearnRoute()

func sfReader(conn net.Conn) {
	if t := NewTCPServerTransportWithConn(conn, true, sfLearn); t != nil {
		t.Start(sfNullHandler{})
	}
}

type sfResult struct {
	errs   []bool // Send returned an error, per message
	msgs   [][]byte
	done   bool
	failAt int
}

func sfMessage(id string, size int) (*Message, []byte) {
	b := &sipwire.Builder{Start: "MESSAGE sip:peer@dest.test SIP/2.0"}
	b.Add("Via", "SIP/2.0/TCP 10.0.0.1:5060;branch=z9hG4bK"+id)
	b.Add("From", "<sip:a@x.test>;tag=1")
	b.Add("To", "<sip:peer@dest.test>")
	b.Add("Call-ID", "cid-"+id)
	b.Add("CSeq", "1 MESSAGE")
	b.Add("X-Sim-Id", id)
	body := make([]byte, size)
	for i := range body {
		body[i] = "abcdefghijklmnopqrstuvwxyz0123456789"[(i*7+len(id))%36]
	}
	b.Body = body
	raw := b.Bytes()
	msg, err := ParseMessage(bufio.NewReader(bytes.NewReader(raw)))
	if err != nil {
		panic("harness: ParseMessage failed on a plain message: " + err.Error())
	}
	wire, _ := msg.Bytes()
	return msg, wire
}

func execSendFaults(t *testing.T, p *Plan) *Result {
	r := &Result{}
	w := runWorld(t, p, func(w *World) {
		n := w.N
		v := func(rule, id, sig, format string, a ...interface{}) {
			w.Viol = append(w.Viol, Violation{Prop: "C20", Rule: rule, Msg: id, Sig: sig, Detail: fmt.Sprintf(format, a...)})
		}
		// one proxy-side listener for the inbound connections of all cells,
		// created and accepted by a simulated goroutine of the harness
		inbound := map[string]net.Conn{} // client ip -> accepted connection
		var ln net.Listener
		lnReady := false
		accepting := 0
		w.K.Spawn("acceptor", true, func() {
			var err error
			ln, err = simnet.Listen("tcp", "10.0.0.9:5060")
			if err != nil {
				return
			}
			lnReady = true
			for {
				conn, err := ln.Accept()
				if err != nil {
					return
				}
				host, _, _ := net.SplitHostPort(conn.RemoteAddr().String())
				inbound[host] = conn
				sfReader(conn)
				accepting++
			}
		})
		w.K.RunIdle()
		if !lnReady {
			w.K.Failures = append(w.K.Failures, "harness: acceptor did not start")
			return
		}
		for i := range p.Ops {
			op := &p.Ops[i]
			if w.dead() {
				return
			}
			cell := op.I["cell"]
			dstIP := fmt.Sprintf("10.3.%d.1", cell)
			dst := dstIP + ":5060"
			emFrom := len(n.Emissions)
			connFrom := len(n.Conns)
			_ = emFrom
			switch op.Kind {
			case "failover":
				res := &sfResult{}
				pr, se := op.S["primary"], op.S["secondary"]
				// destination listener (the reconnectable path)
				var dl *simnet.TCPListener
				if se != "refusing" && se != "absent" && se != "refusing-then-up" {
					dl = n.ActorListen(dstIP, 5060, func(end *simnet.TCPEnd) { w.attachRecorder(end, dst) })
				}
				switch se {
				case "reset1":
					n.DialFaults[dst] = []string{"reset"}
				case "reset-always":
					n.DialFaults[dst] = []string{"reset", "reset", "reset", "reset", "reset", "reset", "reset", "reset"}
				}
				var clientEnd *simnet.TCPEnd
				if pr != "absent" {
					ce, err := n.ActorDial(dstIP, 0, "10.0.0.9:5060")
					if err != nil {
						w.K.Failures = append(w.K.Failures, "harness: inbound dial: "+err.Error())
						return
					}
					clientEnd = ce
					w.attachRecorder(ce, "client-"+dstIP)
					w.K.RunIdle()
				}
				nm := op.I["msgs"]
				var wires [][]byte
				var msgs []*Message
				for k := 0; k < nm; k++ {
					m, wire := sfMessage(fmt.Sprintf("%sm%d", op.ID, k), op.I["size"])
					msgs = append(msgs, m)
					wires = append(wires, wire)
				}
				res.msgs = wires
				failOffset := 0
				if len(wires[0]) > 0 {
					failOffset = op.I["offset"] % len(wires[0])
				}
				staleWarm := false
				sleeping := false
				phase := 0
				gate := &simrt.Gate{}
				w.K.Spawn("sender-"+op.ID, true, func() {
					mgr := NewClientTransportMgr(sfReader)
					trans, err := mgr.GetTransport("tcp", dstIP, 5060, "10.0.0.1", "MESSAGE-"+op.ID)
					if err != nil {
						res.done = true
						return
					}
					if se == "absent" {
						trans.SetSecondary(nil)
					}
					if se == "stale" {
						// warm the reconnectable transport up, then let the peer close that connection
						wm, _ := sfMessage(op.ID+"warm", 10)
						if trans.secondary.Send(wm) == nil {
							staleWarm = true
						}
						phase = 1
						gate.Wait()
					}
					if pr != "absent" {
						conn := inbound[dstIP]
						if conn == nil {
							res.done = true
							return
						}
						pt, _ := NewTCPClientTransportWithConn(conn)
						trans.SetPrimary(pt)
						if pr == "failing" {
							conn.(*simnet.TCPConn).End().Faults = []simnet.WriteFault{{Nth: 0, Accept: failOffset}}
						}
					}
					phase = 2
					gate.Wait()
					for k := range msgs {
						if gap := op.I["gapS"]; k > 0 && gap > 0 {
							sleeping = true
							simrt.Sleep(time.Duration(gap) * time.Second)
							sleeping = false
							if again, err := mgr.GetTransport("tcp", dstIP, 5060, "10.0.0.1", "MESSAGE-"+op.ID); err == nil {
								trans = again
							}
						}
						err := trans.Send(msgs[k])
						res.errs = append(res.errs, err != nil)
						if k == 0 && se == "refusing-then-up" {
							// the destination comes up after the first message was refused
							gate.Open = false
							phase = 3
							gate.Wait()
						}
					}
					res.done = true
				})
				// drive: phases let the kernel inject peer actions between steps
				for step := 0; step < 10 && !res.done; step++ {
					w.K.Settle(time.Second)
					if gap := op.I["gapS"]; gap > 0 && !res.done && sleeping {
						w.K.Advance(time.Duration(gap)*time.Second + time.Second) // the sender pauses between two messages
						w.K.Settle(time.Second)
					}
					if res.done {
						break
					}
					if phase == 1 && staleWarm {
						// the destination closes the warm connection; the FIN reaches the proxy
						for _, e := range n.Conns[connFrom:] {
							if !e.Proxy && e.Local.String() == dst && !e.Closed() {
								e.Close()
							}
						}
						w.K.Settle(time.Second)
						staleWarm = false
					}
					if phase == 2 && pr == "peer-closed" && clientEnd != nil && !clientEnd.Closed() {
						clientEnd.Close()
						w.K.Settle(time.Second)
					}
					if phase == 3 && dl == nil {
						dl = n.ActorListen(dstIP, 5060, func(end *simnet.TCPEnd) { w.attachRecorder(end, dst) })
					}
					gate.Open = true
				}
				w.K.Settle(time.Second)
				sig := "primary=" + pr + ";secondary=" + se
				w.Stats["judged:C20"]++
				w.stat("cell:failover:" + sig)
				if !res.done {
					v("send-did-not-return", op.ID, sig, "Send did not return (goroutine still parked) in cell %s", sig)
					continue
				}
				judgeSends(w, v, op, sig, res, connFrom, dst, func(k int) (mustSucceed, mustFail bool) {
					primaryUsable := pr == "healthy"
					destOK := se == "fresh" || se == "stale" || se == "reset1" || se == "refusing-then-up" && k > 0
					if se == "refusing-then-up" && k == 0 && !primaryUsable {
						return false, true
					}
					// once a fallback happened the working path is the reconnectable one
					switch {
					case primaryUsable:
						return true, false
					case destOK:
						return true, false
					case se == "absent" || se == "refusing":
						return false, true
					}
					return false, false // reset-always: only the invariants
				})
				if dl != nil {
					dl.CloseActor()
				}
			case "udpsend":
				pats := strings.Split(op.S["pattern"], ",")
				var msgs []*Message
				var ids []string
				for k, pat := range pats {
					size := op.I["size"]
					if pat == "big" {
						size = 66000 // more than a datagram can carry: the write fails with EMSGSIZE
					}
					id := fmt.Sprintf("%sm%d", op.ID, k)
					m, _ := sfMessage(id, size)
					msgs = append(msgs, m)
					ids = append(ids, id)
				}
				var errs []bool
				done := false
				w.K.Spawn("sender-"+op.ID, true, func() {
					mgr := NewClientTransportMgr(sfReader)
					for k := range msgs {
						// the transport is looked up for every message, as the proxy does
						trans, err := mgr.GetTransport("udp", dstIP, 5060, "10.0.0.1", "")
						if err != nil {
							errs = append(errs, true)
							continue
						}
						if pats[k] == "enobufs" {
							n.F.UDPWriteErrPct = 100
						}
						err = trans.Send(msgs[k])
						n.F.UDPWriteErrPct = 0
						errs = append(errs, err != nil)
					}
					done = true
				})
				w.K.Settle(time.Second)
				sig := "pattern=" + op.S["pattern"]
				w.Stats["judged:C20"]++
				w.stat("cell:udpsend")
				if !done {
					v("send-did-not-return", op.ID, sig, "Send on a datagram transport did not return in cell %s", sig)
					continue
				}
				for k, id := range ids {
					sent, failed := 0, 0
					for _, e := range n.Emissions[emFrom:] {
						if e.Proto != "udp" || e.Dst != dst || !bytes.Contains(e.Data, []byte("X-Sim-Id: "+id+"\r\n")) {
							continue
						}
						if e.Err != "" {
							failed++
						} else {
							sent++
						}
					}
					ksig := fmt.Sprintf("%s;k=%d;kind=%s", sig, k, pats[k])
					switch {
					case sent > 1:
						v("message-written-more-than-once", id, ksig, "datagram message %d of cell %s was sent %d times", k, sig, sent)
					case !errs[k] && sent == 0:
						v("success-reported-but-message-not-written", id, ksig, "Send reported success for datagram message %d of cell %s, but no datagram carrying it was sent (%d failed write(s))", k, sig, failed)
					case pats[k] == "ok" && (errs[k] || sent != 1):
						v("healthy-send-failed", id, ksig, "datagram message %d of cell %s (nothing wrong with this one; earlier writes of the cell failed: %v) was sent %d times, Send returned error=%v", k, sig, errs[:k], sent, errs[k])
					case errs[k] && sent == 1:
						v("error-reported-but-message-written", id, ksig, "Send returned an error for datagram message %d of cell %s although the datagram was sent", k, sig)
					}
				}
			case "tcpbackend":
				res := &sfResult{}
				cs, ds := op.S["conn"], op.S["dst"]
				var dl *simnet.TCPListener
				if ds != "refusing" {
					dl = n.ActorListen(dstIP, 5060, func(end *simnet.TCPEnd) { w.attachRecorder(end, dst) })
				}
				nm := op.I["msgs"]
				var wires [][]byte
				var msgs []*Message
				for k := 0; k < nm; k++ {
					m, wire := sfMessage(fmt.Sprintf("%sm%d", op.ID, k), op.I["size"])
					msgs = append(msgs, m)
					wires = append(wires, wire)
				}
				res.msgs = wires
				failOffset := op.I["offset"] % len(wires[0])
				phase := 0
				warmed := false
				gate := &simrt.Gate{}
				w.K.Spawn("sender-"+op.ID, true, func() {
					be, err := NewTCPBackend("10.0.0.1:0", dst, sfReader)
					if err != nil {
						res.done = true
						return
					}
					if cs != "none" {
						// warm-up needs an accepting destination whatever the cell's later fate
						wm, _ := sfMessage(op.ID+"warm", 10)
						if be.Send(wm) == nil {
							warmed = true
						}
						if cs == "failing" && be.conn != nil {
							be.conn.(*simnet.TCPConn).End().Faults = []simnet.WriteFault{{Nth: 1, Accept: failOffset}}
						}
					}
					phase = 1
					gate.Wait()
					// the proxy reaches its backends through the rotation they are members of: half of the cells send the
					// way it does (what the group does around a member's failed send is part of the send)
					send := be.Send
					if op.I["viaGroup"] == 1 {
						group := NewRoundRobinBackend()
						group.AddBackend(be)
						send = group.Send
					}
					for k := range msgs {
						err := send(msgs[k])
						res.errs = append(res.errs, err != nil)
					}
					res.done = true
				})
				if cs != "none" && dl == nil {
					// let the warm-up connect, then make the destination refuse
					dl = n.ActorListen(dstIP, 5060, func(end *simnet.TCPEnd) { w.attachRecorder(end, dst) })
				}
				for step := 0; step < 8 && !res.done; step++ {
					w.K.Settle(time.Second)
					if res.done {
						break
					}
					if phase == 1 {
						if cs == "stale" && warmed {
							for _, e := range n.Conns[connFrom:] {
								if !e.Proxy && e.Local.String() == dst && !e.Closed() {
									e.Close()
								}
							}
							warmed = false
						}
						switch ds {
						case "refusing":
							if dl != nil {
								dl.CloseActor()
								dl = nil
							}
						case "reset1":
							if _, set := n.DialFaults[dst]; !set {
								n.DialFaults[dst] = []string{"reset"}
							}
						case "reset-always":
							if _, set := n.DialFaults[dst]; !set {
								n.DialFaults[dst] = []string{"reset", "reset", "reset", "reset", "reset", "reset", "reset", "reset"}
							}
						}
						w.K.Settle(time.Second)
					}
					gate.Open = true
				}
				w.K.Settle(time.Second)
				sig := "backend-conn=" + cs + ";dst=" + ds
				w.Stats["judged:C20"]++
				w.stat("cell:tcpbackend:" + sig)
				if !res.done {
					v("send-did-not-return", op.ID, sig, "TCPBackend.Send did not return in cell %s", sig)
					continue
				}
				judgeSends(w, v, op, sig, res, connFrom, dst, func(k int) (bool, bool) {
					cachedUsable := cs == "healthy"
					switch {
					case cachedUsable:
						return true, false
					case ds == "accepting" || ds == "reset1" && cs == "none":
						return true, false
					case ds == "refusing":
						return false, true
					}
					return false, false
				})
				if dl != nil {
					dl.CloseActor()
				}
			case "e2e-answer-after-close":
				sfAnswerAfterClose(w, v, op)
			case "e2e-broken-next-hop":
				sfBrokenNextHop(w, v, op)
			}
		}
	})
	finish(w, p, r)
	r.Judged = w.Stats["judged:C20"]
	r.Class = fmt.Sprintf("cells=%d/seg=%d", len(p.Ops), p.Cfg.Faults.SegPct)
	s, _ := json.Marshal(map[string]interface{}{"cells": len(p.Ops), "failover_cells": len(sfPrimary) * len(sfSecondary), "tcp_backend_cells": len(sfBackend) * len(sfBackendDst),
		"first_cell": p.Ops[0], "last_cell": p.Ops[len(p.Ops)-1]})
	r.Sample = s
	return r
}


// judgeSends applies the rules of the statement to the byte logs.
func judgeSends(w *World, v func(rule, id, sig, format string, a ...interface{}), op *Op, sig string, res *sfResult, connFrom int, dst string, expect func(k int) (mustSucceed, mustFail bool)) {
	n := w.N
	var ends []*simnet.TCPEnd
	for _, e := range n.Conns[connFrom:] {
		if e.Proxy {
			ends = append(ends, e)
		}
	}
	for k, wire := range res.msgs {
		if k >= len(res.errs) {
			break
		}
		complete := 0
		var where []int
		for _, e := range ends {
			c := bytes.Count(e.Written, wire)
			if c > 0 {
				complete += c
				where = append(where, e.ID)
			}
		}
		failed := res.errs[k]
		msig := fmt.Sprintf("%s;msg=%d", sig, k)
		switch {
		case !failed && complete == 0:
			v("success-without-complete-write", op.ID, sig, "message %d: Send returned nil but the complete message (%d bytes) was accepted on no connection (%s)", k, len(wire), msig)
		case !failed && complete > 1:
			v("message-duplicated", op.ID, sig, "message %d: Send returned nil and the complete message was written %d times (connections %v)", k, complete, where)
		case failed && complete > 0:
			v("error-although-written", op.ID, sig, "message %d: Send returned an error although the complete message was accepted on connection(s) %v", k, where)
		}
		// "without loss": a send that reported success on a connection the peer had closed in an orderly way long
		// before (the proxy's reader saw the end of stream at an earlier instant; a real socket in CLOSE_WAIT accepts
		// the bytes and the peer answers with RST) has lost the message although a fresh connection was possible
		if !failed && complete > 0 {
			delivered := 0
			streams := map[int][]byte{}
			for _, dl := range w.Delivered {
				if dl.Proto == "tcp" {
					streams[dl.ConnID] = append(streams[dl.ConnID], dl.Data...)
				}
			}
			for _, st := range streams {
				delivered += bytes.Count(st, wire)
			}
			lostOn := -1
			for _, e := range ends {
				if e.LostWritten > 0 && bytes.Contains(e.Written, wire) {
					lostOn = e.ID
				}
			}
			if delivered == 0 && lostOn >= 0 {
				v("message-lost-on-connection-the-peer-had-closed", op.ID, sig, "message %d: Send returned nil after writing the message on connection %d, which the peer had closed long before (end of stream had reached the proxy): the bytes were accepted and lost; nobody received the message", k, lostOn)
			}
		}
		mustOK, mustFail := expect(k)
		if mustOK && failed {
			v("no-fallback", op.ID, sig, "message %d: a usable path exists (fresh connection to %s is accepted) but Send returned an error", k, dst)
		}
		if mustFail && !failed {
			v("success-without-path", op.ID, sig, "message %d: no connection can carry the message but Send returned nil", k)
		}
	}
	for _, e := range ends {
		if e.FirstFail >= 0 && e.Writes-e.FirstFail-1 > 0 {
			v("write-on-failed-connection", op.ID, sig, "connection %d failed at its write %d and was written to %d more time(s)", e.ID, e.FirstFail, e.Writes-e.FirstFail-1)
		}
	}
}

// sfAnswerAfterClose: a TCP client sends a request, closes its connection
// before the backend's answer arrives; the answer must reach the client's
// Via address on a fresh connection exactly once (when someone listens
// there), never be reported nowhere silently on a dead connection.
func sfAnswerAfterClose(w *World, v func(rule, id, sig, format string, a ...interface{}), op *Op) {
	n := w.N
	cell := op.I["cell"]
	clientIP := fmt.Sprintf("10.1.%d.1", cell)
	viaPort := op.I["viaport"]
	got := 0
	var gotData []byte
	n.ActorListen(clientIP, viaPort, func(end *simnet.TCPEnd) {
		end.OnData = func(b []byte) { gotData = append(gotData, b...) }
		got++
	})
	c, err := n.ActorDial(clientIP, 0, "10.0.0.1:5060")
	if err != nil {
		w.K.Failures = append(w.K.Failures, "harness: "+err.Error())
		return
	}
	id := op.ID
	params := ";branch=z9hG4bK" + id
	if op.I["rport"] == 1 {
		params += ";rport"
	}
	b := &sipwire.Builder{Start: "OPTIONS sip:u@svc.example.com SIP/2.0"}
	b.Add("Via", fmt.Sprintf("SIP/2.0/TCP %s:%d%s", clientIP, viaPort, params))
	b.Add("From", "<sip:c@caller.test>;tag=f"+id)
	b.Add("To", "<sip:u@svc.example.com>")
	b.Add("Call-ID", "cid-"+id)
	b.Add("CSeq", "1 OPTIONS")
	b.Add("X-Sim-Id", id)
	c.Write(b.Bytes())
	w.K.Settle(time.Second)
	// the request went to the UDP backend; the client goes away, then the backend answers
	var relayed *Emitted
	for _, e := range w.decodeEmissions(0) {
		if e.ID == id && e.M != nil {
			relayed = e
		}
	}
	if relayed == nil {
		w.stat("skipped:e2e-request-not-relayed")
		return
	}
	resp := buildResponse(relayed.M, respPlan{status: 200, toTag: "tt" + id, expires: -1}, id)
	if op.I["race"] == 1 {
		// the client ends its stream (it keeps reading) at the very instant the answer reaches the proxy: the write
		// of the answer and the proxy's own close of the connection (its reader saw end of stream) race. Whichever
		// wins, the client gets the answer once: on the old connection, or on a fresh one to its Via address.
		var oldData []byte
		c.OnData = func(b []byte) { oldData = append(oldData, b...) }
		c.CloseWriteExact(100 * time.Microsecond)
		n.InjectUDP(udpAddr(relayed.E.Dst), udpAddr("10.0.0.1:5060"), resp, 100*time.Microsecond)
		w.K.Settle(time.Second)
		w.Stats["judged:C20"]++
		sig := fmt.Sprintf("e2e-answer-racing-half-close;rport=%d", op.I["rport"])
		w.stat("cell:" + sig)
		count := 0
		for _, stream := range [][]byte{oldData, gotData} {
			for len(stream) > 0 {
				m, rest, err := sipwire.Parse(stream)
				if err != nil {
					break
				}
				if msgID(m) == id+".r200" {
					count++
				}
				stream = rest
			}
		}
		if len(oldData) > 0 {
			w.stat("probe:answer-written-before-the-proxy-closed")
		} else if len(gotData) > 0 {
			w.stat("probe:answer-on-fresh-connection-after-half-close")
		}
		if count > 1 {
			v("message-duplicated", id, sig, "the answer was delivered %d times (%d bytes on the request's connection, %d bytes on %d fresh connection(s) to the Via address)", count, len(oldData), len(gotData), got)
		}
		if count == 0 && op.I["rport"] == 0 {
			v("answer-lost-after-connection-failure", id, sig, "the client half-closed the connection while the answer arrived; it must get the answer once, on that connection or on a fresh one to its Via address %s:%d; it got none", clientIP, viaPort)
		}
		return
	}
	c.Close()
	w.K.Settle(time.Second)
	n.InjectUDP(udpAddr(relayed.E.Dst), udpAddr("10.0.0.1:5060"), resp, 100*time.Microsecond)
	w.K.Settle(time.Second)
	w.Stats["judged:C20"]++
	sig := fmt.Sprintf("e2e-answer-after-close;rport=%d", op.I["rport"])
	w.stat("cell:" + sig)
	want := 1
	if op.I["rport"] == 1 {
		// the answer is owed to the client's true source port, where nobody listens any more:
		// an error, not a delivery
		want = 0
	}
	count := 0
	if m, _, err := sipwire.Parse(gotData); err == nil && msgID(m) == id+".r200" {
		count = 1
		if _, rest, _ := sipwire.Parse(gotData); len(rest) > 0 {
			count = 2
		}
	}
	if want == 1 && count != 1 {
		v("answer-lost-after-connection-failure", id, sig, "the client closed the connection its request used; the answer must fall back to a fresh connection to the Via address %s:%d and be written there exactly once, got %d complete message(s) in %d bytes on %d connection(s)", clientIP, viaPort, count, len(gotData), got)
	}
	if want == 0 && count != 0 {
		w.stat("probe:answer-delivered-to-via-port-although-rport")
	}
}

// sfBrokenNextHop: a request is relayed by Route to a TCP next hop over a
// connection that breaks in the middle of the write (or was closed by the
// hop); the hop must receive the complete message exactly once on a fresh
// connection.
func sfBrokenNextHop(w *World, v func(rule, id, sig, format string, a ...interface{}), op *Op) {
	n := w.N
	cell := op.I["cell"]
	hop := fmt.Sprintf("10.3.%d.1:5080", cell)
	var streams [][]byte
	n.ActorListen(udpAddr(hop).IP.String(), 5080, func(end *simnet.TCPEnd) {
		idx := len(streams)
		streams = append(streams, nil)
		end.OnData = func(b []byte) { streams[idx] = append(streams[idx], b...) }
	})
	mk := func(id string, size int) []byte {
		b := &sipwire.Builder{Start: "MESSAGE sip:peer@far.test SIP/2.0"}
		b.Add("Via", "SIP/2.0/UDP 10.1.0.1:5060;branch=z9hG4bK"+id)
		b.Add("Route", "<sip:"+hop+";transport=tcp;lr>")
		b.Add("From", "<sip:a@x.test>;tag=1")
		b.Add("To", "<sip:peer@far.test>")
		b.Add("Call-ID", "cid-"+id)
		b.Add("CSeq", "1 MESSAGE")
		b.Add("X-Sim-Id", id)
		b.Body = bytes.Repeat([]byte("0123456789"), size/10)
		return b.Bytes()
	}
	// first request opens the connection
	n.InjectUDP(udpAddr("10.1.0.1:5060"), udpAddr("10.0.0.1:5060"), mk(op.ID+"a", 0), 100*time.Microsecond)
	w.K.Settle(time.Second)
	var pend *simnet.TCPEnd
	for _, e := range n.Conns {
		if e.Proxy && e.Remote.String() == hop {
			pend = e
		}
	}
	if pend == nil {
		w.stat("skipped:e2e-no-connection-to-hop")
		return
	}
	second := mk(op.ID+"b", op.I["size"])
	mode := op.I["mode"]
	switch mode {
	case 0: // breaks in the middle of the next write
		pend.Faults = []simnet.WriteFault{{Nth: pend.Writes, Accept: op.I["offset"] % len(second)}}
	case 1: // the hop closed the connection meanwhile
		pend.Peer.Close()
		w.K.Settle(time.Second)
	case 2: // breaks before any byte is accepted
		pend.Faults = []simnet.WriteFault{{Nth: pend.Writes, Accept: 0}}
	}
	n.InjectUDP(udpAddr("10.1.0.1:5060"), udpAddr("10.0.0.1:5060"), second, 100*time.Microsecond)
	w.K.Settle(time.Second)
	w.Stats["judged:C20"]++
	sig := fmt.Sprintf("e2e-broken-next-hop;mode=%d", mode)
	w.stat("cell:" + sig)
	complete := 0
	garbage := 0
	for i, s := range streams {
		if i == 0 {
			// the first connection carried message a, then possibly a fragment of b
			_, rest, err := sipwire.Parse(s)
			if err != nil {
				continue
			}
			s = rest
			if len(s) == 0 {
				continue
			}
			if m, _, err := sipwire.Parse(s); err == nil && msgID(m) == op.ID+"b" {
				complete++
			}
			continue
		}
		m, rest, err := sipwire.Parse(s)
		if err == nil && msgID(m) == op.ID+"b" && len(rest) == 0 {
			complete++
		} else if len(s) > 0 {
			garbage++
		}
	}
	if complete != 1 || garbage > 0 {
		v("message-not-delivered-once-after-connection-failure", op.ID, sig, "the cached connection to %s failed (mode %d); the hop must get the complete message exactly once on a fresh connection: %d complete, %d connection(s) with a fragment only, %d connections in all", hop, mode, complete, garbage, len(streams))
	}
}

var _ = strings.Contains

func init() {
	register("C20", genSendFaultsPlan, execSendFaults)
}
