//go:build verif

package main

import (
	"fmt"
	"testing"
	"time"

	"verif/sim/sipwire"
)

func init() {
	register("SMOKE", func(seed uint64, tier string) *Plan {
		p := &Plan{}
		p.Cfg.Name = "svc.example.com"
		p.Cfg.Listens = []ListenCfg{{Addr: "10.0.0.1", UDP: 5060, TCP: 5060, Backends: []string{"udp://10.2.0.1:5070", "udp://10.2.0.2:5070"}}}
		p.Cfg.Faults.MinLat = 100 * time.Microsecond
		p.Cfg.Faults.MaxLat = 2 * time.Millisecond
		for i := 0; i < 5; i++ {
			b := &sipwire.Builder{Start: "INVITE sip:bob@svc.example.com SIP/2.0"}
			b.Add("Via", fmt.Sprintf("SIP/2.0/UDP 10.1.0.1:5060;branch=z9hG4bKx%d", i))
			b.Add("From", "<sip:alice@a.example>;tag=1")
			b.Add("To", "<sip:bob@svc.example.com>")
			b.Add("Call-ID", fmt.Sprintf("c%d", i))
			b.Add("CSeq", "1 INVITE")
			b.Add("X-Sim-Id", fmt.Sprintf("m%d", i))
			p.Ops = append(p.Ops, Op{Kind: "msg", Proto: "udp", SrcIP: "10.1.0.1", SrcPort: 5060, Data: b.Bytes()})
		}
		return p
	}, func(t *testing.T, p *Plan) *Result {
		r := &Result{}
		w := runWorld(t, p, func(w *World) {
			ua := w.UDPParty("10.1.0.1:5060")
			w.UDPParty("10.2.0.1:5070")
			w.UDPParty("10.2.0.2:5070")
			for _, op := range p.Ops {
				ua.Send(udpAddr("10.0.0.1:5060"), op.Data)
			}
			w.K.Settle(time.Minute)
			for _, e := range w.decodeEmissions(0) {
				w.stat("emitted")
				if *fTrace {
					fmt.Printf("EMIT %s -> %s\n%s\n", e.E.Src, e.E.Dst, e.E.Data)
				}
			}
			w.Stats["delivered"] = len(w.Delivered)
		})
		finish(w, p, r)
		return r
	})
}
