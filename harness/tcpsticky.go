//go:build verif

package main

// Dialogs over TCP backends (variant "tcp-backends" of C04 and C15): the
// listen entry's backends are tcp:// addresses, the proxy opens the
// connections to them itself, and the establishing answer comes back over
// such a connection - so "the backend that answered" is known to the proxy
// only as the peer of a connection it dialled. The requests of the dialog,
// sent by either party over the client connection, a new one, or UDP, must
// all be written towards that backend. No faults; every message is settled
// before the next, unrelated requests move the rotation in between.

import (
	"encoding/json"
	"fmt"
	"strconv"
	"testing"
	"time"

	"verif/sim/sipwire"
)

func genTCPStickyPlan(seed uint64, tier string) *Plan {
	g := newGen(seed ^ 0x7c9b0d)
	p := &Plan{Sched: g.intn(3), PCTDepth: 1 + g.intn(3), Variant: "tcp-backends"}
	c := &Cfg{Name: "svc.example.com"}
	l := ListenCfg{Addr: "10.0.0.1", TCP: g.pick2(5060, 5070, 45060)}
	if g.chance(40) {
		l.UDP = g.pick2(5060, 5080)
	}
	nb := g.rng(2, 4)
	for b := 0; b < nb; b++ {
		addr := fmt.Sprintf("10.2.0.%d:%d", b+1, g.pick2(5070, 5080, 45070))
		l.Backends = append(l.Backends, "tcp://"+addr)
		c.TCPSinks = append(c.TCPSinks, addr)
	}
	c.Listens = []ListenCfg{l}
	c.DialogTimeout = g.pick2(60, 1200, 3600)
	c.Faults = simnetNoFaults()
	c.Faults.MinLat = 50 * time.Microsecond
	c.Faults.MaxLat = 2 * time.Millisecond
	p.Cfg = *c
	nd := g.rng(1, 4)
	for k := 0; k < nd; k++ {
		op := Op{Kind: "tcpdialog", ID: g.nextID(), S: map[string]string{
			"ua":      fmt.Sprintf("10.1.0.%d", 1+g.intn(3)),
			"callID":  "tcall-" + g.alnum(5, 9),
			"fromTag": g.tagValue(), "toTag": g.tagValue(),
			"status": g.pick("200", "200", "200", "202"),
			"prov":   g.pick("", "", "180", "100"),
		}, I: map[string]int{"plainBefore": g.intn(3), "plainBetween": g.intn(3), "infos": g.rng(1, 3), "newConn": g.intn(4), "rev": g.intn(3), "gapS": g.pick2(0, 0, 1, 30), "restartAt": g.pick2(-1, -1, 1, 2)}}
		p.Ops = append(p.Ops, op)
	}
	return p
}

func execTCPSticky(t *testing.T, p *Plan) *Result {
	r := &Result{}
	prop := p.Prop
	if prop != "C15" {
		prop = "C04"
	}
	w := runWorld(t, p, func(w *World) {
		l := p.Cfg.Listens[0]
		dst := hostPort(l.Addr, l.TCP)
		seq := 0
		emOf := func(id string) []*Emitted {
			var out []*Emitted
			for _, e := range w.decodeEmissions(0) {
				if e.ID == id && e.M != nil && e.M.IsRequest {
					out = append(out, e)
				}
			}
			return out
		}
		build := func(method, ruri, from, to, callID string, cseq int, ua string) (string, []byte) {
			seq++
			id := fmt.Sprintf("%s-m%d", callID, seq)
			b := &sipwire.Builder{Start: method + " " + ruri + " SIP/2.0"}
			b.Add("Via", viaEntry("TCP", ua, 5060, ";branch=z9hG4bK"+strconv.Itoa(seq)+callID))
			b.Add("From", from)
			b.Add("To", to)
			b.Add("Call-ID", callID)
			b.Add("CSeq", fmt.Sprintf("%d %s", cseq, method))
			b.Add("X-Sim-Id", id)
			return id, b.Bytes()
		}
		send := func(label, ua string, data []byte) bool {
			c, err := w.TCPConnTo(label, ua, 0, dst)
			if err != nil {
				w.K.Failures = append(w.K.Failures, "tcp-backends: cannot connect to the listener: "+err.Error())
				return false
			}
			c.Write(data)
			return w.K.Settle(10*time.Second) && !w.dead()
		}
		plain := func(n int, ua string) bool {
			for i := 0; i < n; i++ {
				seq++
				_, data := build("OPTIONS", "sip:svc.example.com", "<sip:p@caller.test>;tag=pl"+strconv.Itoa(seq), "<sip:svc@svc.example.com>", "plain-"+strconv.Itoa(seq), 1, ua)
				if !send("plain-"+ua, ua, data) {
					return false
				}
			}
			return true
		}
		for i := range p.Ops {
			op := &p.Ops[i]
			if op.Kind != "tcpdialog" {
				continue
			}
			ua, callID := op.S["ua"], op.S["callID"]
			from := "<sip:alice@caller.test>;tag=" + op.S["fromTag"]
			to := "<sip:svc@svc.example.com>"
			if !plain(op.I["plainBefore"], ua) {
				return
			}
			id, data := build("INVITE", "sip:svc@svc.example.com", from, to, callID, 1, ua)
			if !send("c-"+callID, ua, data) {
				return
			}
			ems := emOf(id)
			if len(ems) != 1 || ems[0].E.Proto != "tcp" {
				w.stat("skipped:invite-not-relayed-once-over-tcp")
				continue
			}
			backend := ems[0].E.Dst
			end := w.sinkEnds[ems[0].E.ConnID]
			if end == nil || end.Closed() || end.IsReset() {
				w.stat("skipped:no-backend-connection")
				continue
			}
			// the backend answers over the connection the proxy opened to it
			if op.S["prov"] != "" {
				n, _ := strconv.Atoi(op.S["prov"])
				end.Write(buildResponse(ems[0].M, respPlan{status: n, expires: -1}, id))
				if !w.K.Settle(10*time.Second) || w.dead() {
					return
				}
			}
			st, _ := strconv.Atoi(op.S["status"])
			end.Write(buildResponse(ems[0].M, respPlan{status: st, toTag: op.S["toTag"], expires: -1}, id))
			if !w.K.Settle(10*time.Second) || w.dead() {
				return
			}
			w.stat("probe:dialog-established-by-a-tcp-backend")
			to2 := to + ";tag=" + op.S["toTag"]
			if op.I["gapS"] > 0 {
				w.K.Advance(time.Duration(op.I["gapS"]) * time.Second)
			}
			methods := []string{"ACK"}
			for k := 0; k < op.I["infos"]; k++ {
				methods = append(methods, []string{"INFO", "UPDATE", "MESSAGE"}[k%3])
			}
			methods = append(methods, "BYE")
			for k, m := range methods {
				if k == op.I["restartAt"] && end != nil && !end.Closed() && !end.IsReset() {
					// the backend closes the connection the proxy opened to it (a restart, an idle timeout) and keeps
					// listening: the dialog's next request belongs on a new connection to the same backend
					end.Close()
					end = nil
					w.stat("probe:pinned-tcp-backend-closed-its-connection")
					if !w.K.Settle(10*time.Second) || w.dead() {
						return
					}
				}
				if !plain(op.I["plainBetween"], ua) {
					return
				}
				f, tt, label, src := from, to2, "c-"+callID, ua
				if op.I["rev"] == 1 && m != "ACK" && k%2 == 1 {
					// from the callee's side: From and To swapped, another host, another connection
					f, tt, label, src = "<sip:svc@svc.example.com>;tag="+op.S["toTag"], "<sip:alice@caller.test>;tag="+op.S["fromTag"], "r-"+callID, "10.1.0.9"
				} else if op.I["newConn"] == 1 && k > 0 {
					label = fmt.Sprintf("c%d-%s", k, callID)
				}
				mid, data := build(m, "sip:svc@svc.example.com", f, tt, callID, 2+k, src)
				if !send(label, src, data) {
					return
				}
				w.Stats["judged:"+prop]++
				delivered := false
				for _, e := range emOf(mid) {
					delivered = delivered || e.E.Dst == backend && e.E.Err == ""
					if e.E.Dst != backend {
						rule, sig := "in-dialog-request-left-its-backend", fmt.Sprintf("tcpBackends=true;method=%s;rev=%v", m, f != from)
						if prop == "C15" {
							rule = "pin-not-honoured"
						}
						w.Viol = append(w.Viol, Violation{Prop: prop, Rule: rule, Msg: mid, Sig: sig,
							Detail: fmt.Sprintf("the dialog %s was established by the answer of TCP backend %s (over the connection the proxy opened to it); its %s was sent to %s/%s", callID, backend, m, e.E.Proto, e.E.Dst)})
					}
				}
				if !delivered && end == nil && op.I["restartAt"] >= 0 && k >= op.I["restartAt"] {
					// no faults in this world but the closed connection, and the backend accepts new ones
					rule := "in-dialog-request-left-its-backend"
					if prop == "C15" {
						rule = "pin-not-honoured"
					}
					w.Viol = append(w.Viol, Violation{Prop: prop, Rule: rule, Msg: mid, Sig: fmt.Sprintf("tcpBackends=true;method=%s;afterBackendReconnect=true;delivered=none", m),
						Detail: fmt.Sprintf("the dialog %s is pinned to TCP backend %s, which closed the proxy's connection and accepts new ones; its %s was written to no connection towards that backend", callID, backend, m)})
				}
			}
		}
	})
	finish(w, p, r)
	r.Judged = w.Stats["judged:"+prop]
	r.Class = fmt.Sprintf("tcp-backends/B%d/ops%d", len(p.Cfg.Listens[0].Backends), len(p.Ops))
	b, _ := json.Marshal(map[string]interface{}{"variant": "tcp-backends", "dialogs": len(p.Ops), "listen": p.Cfg.Listens[0]})
	r.Sample = b
	return r
}
