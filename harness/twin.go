//go:build verif

package main

import (
	"bytes"
	"encoding/json"
	"fmt"
	"hash/fnv"
	"strconv"
	"strings"
	"testing"
	"time"

	"verif/sim/simrt"
	"verif/sim/sipwire"
)

// C17: header spelling and list layout do not change what the proxy does.
// Twin worlds: world A runs a plan, world B runs the same plan (same
// configuration, same schedule tape, same entropy) with every message
// respelled: header names independently canonical / compact / upper / lower /
// random case, Via / Route / Record-Route lists re-laid-out. Every message is
// injected at quiescence, so any difference between the two histories is
// caused by the transform.

func genTwinPlan(seed uint64, tier string) *Plan {
	p := genRelayPlan(seed, tier, "C17")
	g := newGen(seed ^ 0x7717)
	// add dialog snippets so that the pinning decision is part of the history
	c := &p.Cfg
	for li, l := range c.Listens {
		if len(l.Backends) < 2 || l.UDP == 0 {
			continue
		}
		for d := 0; d < 1+g.intn(2); d++ {
			p.Ops = append(p.Ops, genDialogSnippet(g, c, li, g.intn(len(l.Backends)))...)
		}
		if g.chance(50) {
			p.Ops = append(p.Ops, genSubscribeSnippet(g, c, li, g.intn(len(l.Backends)))...)
		}
	}
	if g.chance(6) {
		// a peer that uses hundreds of extension header names nobody has seen before (whatever the proxy remembers about
		// header names, it remembers it for the life of the process: the worlds after this one run in the same process)
		for i := range p.Ops {
			if p.Ops[i].Kind != "msg" || p.Ops[i].Proto != "udp" {
				continue
			}
			data := p.Ops[i].Data
			end := bytes.Index(data, []byte("\r\n\r\n"))
			if end < 0 || len(data) > 20000 || !bytes.Contains(data[:end], []byte("Content-Length: 0")) && !bytes.HasSuffix(data, []byte("\r\n\r\n")) {
				continue
			}
			var sb bytes.Buffer
			sb.Write(data[:end+2])
			for k := 0; k < 700; k++ {
				fmt.Fprintf(&sb, "X-%s-%d: %d\r\n", g.alnum(3, 8), k, k)
			}
			sb.Write(data[end+2:])
			p.Ops[i].Data = sb.Bytes()
			break
		}
	}
	if g.chance(30) {
		// short dialog timeout, answers that promise more under several header names, and a minute of silence before
		// the last requests of each dialog: whatever lifetime the proxy derives from the answer, it derives it from
		// every spelling of the header's name alike
		c.DialogTimeout = 30
		var out []Op
		for i, op := range p.Ops {
			if op.S["late"] == "1" && (i == 0 || p.Ops[i-1].S["late"] != "1") {
				out = append(out, Op{Kind: "advance", ID: g.nextID(), Dur: int64(time.Duration(g.rng(40, 90)) * time.Second)})
			}
			out = append(out, op)
		}
		p.Ops = out
	}
	return p
}

// genDialogSnippet: INVITE to the service, a 200 injected from backend bi's
// address (which pins the dialog), then in-dialog requests from both sides.
func genDialogSnippet(g *gen, c *Cfg, li int, bi int) []Op {
	l := c.Listens[li]
	match, _ := svcURIs(g, c.Name)
	ruri := match[g.intn(len(match))]
	be := l.Backends[bi]
	beAddr := be[strings.Index(be, "://")+3:]
	beIP, bePort := udpAddr(beAddr).IP.String(), udpAddr(beAddr).Port
	if strings.HasPrefix(be, "tcp") {
		return nil
	}
	uaIP := topo.uas[g.intn(len(topo.uas))]
	callID := "dlg-" + g.alnum(6, 10)
	fromTag, toTag := g.tagValue(), g.tagValue()
	fromURI := "sip:" + g.user0() + "@caller.test"
	toURI := "sip:" + g.user0() + "@svc.example.com"
	if g.chance(20) {
		toURI = fromURI // both parties use the same URI
	}
	mk := func(method string, cseq int, from, to string, vias []string, src string, srcPort int, extra []sipwire.Header, start string) Op {
		id := g.nextID()
		b := &sipwire.Builder{Start: start}
		for _, v := range vias {
			b.Add("Via", v)
		}
		b.Add("From", from)
		b.Add("To", to)
		b.Add("Call-ID", callID)
		b.Add("CSeq", fmt.Sprintf("%d %s", cseq, method))
		b.Add("X-Sim-Id", id)
		for _, h := range extra {
			b.Add(h.Name, h.Value)
		}
		return Op{Kind: "msg", ID: id, Proto: "udp", SrcIP: src, SrcPort: srcPort, Listen: li, Data: b.Bytes(), Settle: true}
	}
	uaVia := viaEntry("UDP", uaIP, 5060, ";branch=z9hG4bK"+g.alnum(6, 10))
	proxyVia := viaEntry("UDP", l.Addr, l.UDP, ";branch=z9hG4bK"+g.alnum(8, 12))
	var ops []Op
	ops = append(ops, mk("INVITE", 1, "<"+fromURI+">;tag="+fromTag, "<"+toURI+">", []string{uaVia}, uaIP, 5060, nil, "INVITE "+ruri+" SIP/2.0"))
	var promise []sipwire.Header
	switch g.intn(7) {
	case 5:
		// the lifetime a registrar or notifier would read: the expires parameter of Contact, no Expires header
		promise = []sipwire.Header{{Name: "Contact", Value: "<sip:callee@" + beIP + ":" + strconv.Itoa(bePort) + ">;expires=1800"}}
	case 6:
		promise = []sipwire.Header{{Name: "Contact", Value: "\"C\" <sip:callee@" + beIP + ">;q=0.5;expires=600"}, {Name: "Min-Expires", Value: "1800"}, {Name: "Min-SE", Value: "900"}}
	case 0:
		promise = []sipwire.Header{{Name: "Session-Expires", Value: "1800;refresher=uac"}, {Name: "Supported", Value: "timer"}}
	case 1:
		promise = []sipwire.Header{{Name: "Expires", Value: "1800"}}
	case 2:
		promise = []sipwire.Header{{Name: "Session-Expires", Value: "1800"}, {Name: "Expires", Value: "600"}}
	case 3:
		promise = []sipwire.Header{{Name: "Expires", Value: g.pick("0600", "007", "+600", "600 ")}} // a number, not in its shortest form
	}
	ops = append(ops, mk("INVITE", 1, "<"+fromURI+">;tag="+fromTag, "<"+toURI+">;tag="+toTag, []string{proxyVia, uaVia}, beIP, bePort, promise, "SIP/2.0 200 OK"))
	methods := []string{"ACK", "INFO", "UPDATE", "BYE"}
	for i, m := range methods {
		if m != "ACK" && m != "BYE" && g.chance(50) {
			continue
		}
		if m == "BYE" || m == "UPDATE" && g.chance(50) {
			defer func(k int) {
				if k < len(ops) {
					for j := k; j < len(ops); j++ {
						if ops[j].S == nil {
							ops[j].S = map[string]string{}
						}
						ops[j].S["late"] = "1"
					}
				}
			}(len(ops))
		}
		v := viaEntry("UDP", uaIP, 5060, ";branch=z9hG4bK"+g.alnum(6, 10))
		if g.chance(40) && m != "ACK" {
			// from the callee side: From/To swapped
			ops = append(ops, mk(m, 10+i, "<"+toURI+">;tag="+toTag, "<"+fromURI+">;tag="+fromTag, []string{v}, uaIP, 5060, nil, m+" "+ruri+" SIP/2.0"))
		} else {
			ops = append(ops, mk(m, 2+i, "<"+fromURI+">;tag="+fromTag, "<"+toURI+">;tag="+toTag, []string{v}, uaIP, 5060, nil, m+" "+ruri+" SIP/2.0"))
		}
	}
	return ops
}

// genSubscribeSnippet: an outside server registers (the proxy learns it), backend bi subscribes to it through the
// proxy, the server's 200 comes back (binding the dialog to the subscriber), then the server sends NOTIFYs.
func genSubscribeSnippet(g *gen, c *Cfg, li int, bi int) []Op {
	l := c.Listens[li]
	be := l.Backends[bi]
	if strings.HasPrefix(be, "tcp") {
		return nil
	}
	beAddr := be[strings.Index(be, "://")+3:]
	beIP, bePort := udpAddr(beAddr).IP.String(), udpAddr(beAddr).Port
	match, _ := svcURIs(g, c.Name)
	svc := match[g.intn(len(match))]
	srvIP := topo.uas[g.intn(len(topo.uas))]
	callID := "sub-" + g.alnum(6, 10)
	fromTag, toTag := g.tagValue(), g.tagValue()
	subscriber := "sip:" + g.user0() + "@svc.example.com"
	notifier := "sip:" + g.user0() + "@presence.test"
	mk := func(start string, cseq string, from, to string, vias []string, src string, srcPort int, extra []sipwire.Header) Op {
		id := g.nextID()
		b := &sipwire.Builder{Start: start}
		for _, v := range vias {
			b.Add("Via", v)
		}
		b.Add("From", from)
		b.Add("To", to)
		b.Add("Call-ID", callID)
		b.Add("CSeq", cseq)
		b.Add("X-Sim-Id", id)
		for _, h := range extra {
			b.Add(h.Name, h.Value)
		}
		return Op{Kind: "msg", ID: id, Proto: "udp", SrcIP: src, SrcPort: srcPort, Listen: li, Data: b.Bytes(), Settle: true}
	}
	srvVia := func() string { return viaEntry("UDP", srvIP, 5060, ";branch=z9hG4bK"+g.alnum(6, 10)) }
	beVia := viaEntry("UDP", beIP, bePort, ";branch=z9hG4bK"+g.alnum(6, 10))
	proxyVia := viaEntry("UDP", l.Addr, l.UDP, ";branch=z9hG4bK"+g.alnum(8, 12))
	var ops []Op
	ops = append(ops, mk("REGISTER "+svc+" SIP/2.0", "1 REGISTER", "<"+notifier+">;tag="+g.tagValue(), "<"+notifier+">", []string{srvVia()}, srvIP, 5060, nil))
	ops = append(ops, mk("SUBSCRIBE sip:"+srvIP+":5060 SIP/2.0", "1 SUBSCRIBE", "<"+subscriber+">;tag="+fromTag, "<"+notifier+">", []string{beVia}, beIP, bePort,
		[]sipwire.Header{{Name: "Route", Value: "<sip:" + srvIP + ":5060;lr>"}, {Name: "Event", Value: "presence"}}))
	ops = append(ops, mk("SIP/2.0 200 OK", "1 SUBSCRIBE", "<"+subscriber+">;tag="+fromTag, "<"+notifier+">;tag="+toTag, []string{proxyVia, beVia}, srvIP, 5060,
		[]sipwire.Header{{Name: "Expires", Value: g.pick("3600", "3600", "03600", "+3600")}}))
	for k := 0; k < 1+g.intn(2); k++ {
		ops = append(ops, mk("NOTIFY "+svc+" SIP/2.0", fmt.Sprintf("%d NOTIFY", 2+k), "<"+notifier+">;tag="+toTag, "<"+subscriber+">;tag="+fromTag, []string{srvVia()}, srvIP, 5060,
			[]sipwire.Header{{Name: "Event", Value: "presence"}, {Name: "Subscription-State", Value: g.pick("active;expires=3000", "active; expires=3000", "pending ;expires=20", "active;x=", "terminated; reason=timeout", "Active;Expires=3000")}}))
	}
	return ops
}

func idHash(s string) uint64 {
	h := fnv.New64a()
	h.Write([]byte(s))
	return h.Sum64()
}

var canonicalSpelling = map[string]string{"via": "Via", "route": "Route", "record-route": "Record-Route", "from": "From", "to": "To", "call-id": "Call-ID",
	"cseq": "CSeq", "content-length": "Content-Length", "contact": "Contact", "content-type": "Content-Type", "supported": "Supported", "subject": "Subject",
	"event": "Event", "allow-events": "Allow-Events", "refer-to": "Refer-To", "referred-by": "Referred-By", "accept-contact": "Accept-Contact", "content-encoding": "Content-Encoding"}

func respellName(r *simrt.Rand, name string) string {
	canon := sipwire.Canon(name)
	if canon == simIDHeader {
		return name
	}
	base := name
	if sp, ok := canonicalSpelling[canon]; ok {
		base = sp
	}
	switch r.Intn(6) {
	case 0:
		return base
	case 1:
		if c, ok := sipwire.CompactOf(canon); ok {
			if r.Intn(2) == 0 {
				return strings.ToUpper(c)
			}
			return c
		}
		return base
	case 2:
		return strings.ToUpper(base)
	case 3:
		return strings.ToLower(base)
	case 4:
		b := []byte(base)
		for i := range b {
			if r.Intn(2) == 0 {
				b[i] = strings.ToUpper(string(b[i]))[0]
			} else {
				b[i] = strings.ToLower(string(b[i]))[0]
			}
		}
		return string(b)
	}
	return name
}

// transformMessage respells header names and re-lays-out the routing lists.
func transformMessage(seed uint64, id string, data []byte) ([]byte, error) {
	m, rest, err := sipwire.Parse(data)
	if err != nil || len(rest) > 0 {
		return nil, fmt.Errorf("twin: message does not parse: %v", err)
	}
	r := &simrt.Rand{}
	r.Seed(simrt.Mix(seed, idHash(id)))
	b := &sipwire.Builder{Start: m.StartLine, Body: m.Body, NoCL: true}
	i := 0
	for i < len(m.Headers) {
		h := m.Headers[i]
		canon := sipwire.Canon(h.Name)
		if canon == "via" || canon == "route" || canon == "record-route" {
			// gather the run of adjacent header lines of this list, re-lay it out
			var entries []string
			j := i
			for j < len(m.Headers) && sipwire.Canon(m.Headers[j].Name) == canon {
				entries = append(entries, sipwire.SplitList(m.Headers[j].Value)...)
				j++
			}
			k := 0
			for k < len(entries) {
				n := 1
				switch r.Intn(3) {
				case 1:
					n = len(entries) - k
				case 2:
					n = 1 + r.Intn(len(entries)-k)
				}
				b.Add(respellName(r, h.Name), strings.Join(entries[k:k+n], ","))
				k += n
			}
			i = j
			continue
		}
		b.Add(respellName(r, h.Name), h.Value)
		i++
	}
	return b.Bytes(), nil
}

type twinObs struct {
	ems []*Emitted
}

func runTwinWorld(t *testing.T, p *Plan, transform bool, tape []uint32, replay bool) (*World, map[string][]*Emitted) {
	q := *p
	q.Ops = append([]Op(nil), p.Ops...)
	q.Tape = tape
	q.Replay = replay
	obs := map[string][]*Emitted{}
	w := runWorld(t, &q, func(w *World) {
		st := newRelayState(w, &q.Cfg)
		for i := range q.Ops {
			op := q.Ops[i]
			if op.Kind == "advance" {
				w.K.Advance(time.Duration(op.Dur))
				continue
			}
			if op.Kind != "msg" {
				continue
			}
			if transform {
				d, err := transformMessage(p.Seed, op.ID, op.Data)
				if err != nil {
					w.K.Failures = append(w.K.Failures, err.Error())
					return
				}
				op.Data = d
			}
			op.Settle = true // one message at a time: a TCP message is written at once, not pipelined with the next
			st.inject(&op)
			st.flushBatches()
			if !w.K.Settle(10 * time.Second) {
				return
			}
		}
		for _, e := range w.decodeEmissions(0) {
			obs[e.ID] = append(obs[e.ID], e)
		}
	})
	if !replay {
		p.Tape = append([]uint32(nil), w.K.Tape()...)
	}
	return w, obs
}

func execTwin(t *testing.T, p *Plan) *Result {
	r := &Result{}
	wa, a := runTwinWorld(t, p, false, p.Tape, p.Replay)
	tape := p.Tape
	wb, b := runTwinWorld(t, p, true, tape, true)
	// compare
	w := wa
	w.Viol = append(w.Viol, wb.Viol...)
	for _, f := range wb.K.Failures {
		wa.K.Failures = append(wa.K.Failures, "twin: "+f)
	}
	v := func(rule, id, sig, format string, args ...interface{}) {
		w.Viol = append(w.Viol, Violation{Prop: "C17", Rule: rule, Msg: id, Sig: sig, Detail: fmt.Sprintf(format, args...)})
	}
	if len(wa.K.Failures) == 0 && len(wa.K.Panics) == 0 && len(wb.K.Panics) == 0 {
		for i := range p.Ops {
			op := p.Ops[i]
			if op.Kind != "msg" {
				continue
			}
			id := op.ID
			ea, eb := a[id], b[id]
			w.Stats["judged:C17"]++
			if len(ea) != len(eb) {
				v("relay-decision-differs", id, "", "message relayed %d time(s) as sent and %d time(s) respelled\nrespelled input:\n%s", len(ea), len(eb), clip(respelledText(p, op), 600))
				continue
			}
			if len(ea) > 0 {
				w.Stats["compared-emissions"] += len(ea)
			}
			for k := range ea {
				x, y := ea[k], eb[k]
				if x.E.Proto != y.E.Proto || x.E.Dst != y.E.Dst {
					v("destination-differs", id, "", "relayed to %s/%s as sent, to %s/%s respelled\nrespelled input:\n%s", x.E.Proto, x.E.Dst, y.E.Proto, y.E.Dst, clip(respelledText(p, op), 600))
					continue
				}
				if x.M == nil || y.M == nil {
					if (x.M == nil) != (y.M == nil) {
						v("decodability-differs", id, "", "emission decodes in one world only")
					}
					continue
				}
				compareTwin(v, id, x.M, y.M)
			}
		}
	}
	finish(w, p, r)
	r.Steps += wb.K.Step
	r.Hash = fmt.Sprintf("%016x", wa.K.TraceHash^(wb.K.TraceHash*31))
	r.Judged = w.Stats["judged:C17"]
	r.Class = fmt.Sprintf("L%d/R%d/%s", len(p.Cfg.Listens), len(p.Cfg.Routes), p.Cfg.Name)
	if len(p.Ops) > 0 {
		op := p.Ops[0]
		s, _ := json.Marshal(map[string]interface{}{"messages": len(p.Ops), "first_message_as_sent": clip(string(op.Data), 240), "first_message_respelled": clip(respelledText(p, op), 240)})
		r.Sample = s
	}
	return r
}

func respelledText(p *Plan, op Op) string {
	d, err := transformMessage(p.Seed, op.ID, op.Data)
	if err != nil {
		return err.Error()
	}
	return string(d)
}

func compareTwin(v func(rule, id, sig, format string, args ...interface{}), id string, x, y *sipwire.Msg) {
	if x.StartLine != y.StartLine {
		v("start-line-differs", id, "", "start line %q vs %q", clip(x.StartLine, 150), clip(y.StartLine, 150))
	}
	for _, list := range []string{"via", "route", "record-route"} {
		lx, ly := x.List(list), y.List(list)
		if len(lx) != len(ly) {
			v("list-differs", id, "list="+list, "%s list has %d entries as sent and %d respelled:\n%v\n%v", list, len(lx), len(ly), lx, ly)
			continue
		}
		for i := range lx {
			if strings.TrimSpace(lx[i]) != strings.TrimSpace(ly[i]) {
				// the proxy's own fresh branch may differ
				if list == "via" && i == 0 && sameButBranch(lx[i], ly[i]) {
					continue
				}
				// decoded comparison: an omitted port and the explicit default port are the same sent-by
				if list == "via" {
					va, e1 := sipwire.ParseVia(lx[i])
					vb, e2 := sipwire.ParseVia(ly[i])
					if e1 == nil && e2 == nil && viaEqual(va, vb) {
						continue
					}
				} else {
					na, e1 := sipwire.ParseNameAddr(lx[i])
					nb, e2 := sipwire.ParseNameAddr(ly[i])
					if e1 == nil && e2 == nil && nameAddrEqual(na, nb) {
						continue
					}
				}
				v("list-differs", id, "list="+list, "%s entry %d: %q as sent, %q respelled", list, i, lx[i], ly[i])
				break
			}
		}
	}
	type hv struct{ n, v string }
	var hx, hy []hv
	for _, h := range x.Headers {
		switch c := sipwire.Canon(h.Name); c {
		case "via", "route", "record-route", "content-length":
		default:
			hx = append(hx, hv{c, h.Value})
		}
	}
	for _, h := range y.Headers {
		switch c := sipwire.Canon(h.Name); c {
		case "via", "route", "record-route", "content-length":
		default:
			hy = append(hy, hv{c, h.Value})
		}
	}
	if len(hx) != len(hy) {
		v("headers-differ", id, "", "%d other header fields as sent, %d respelled", len(hx), len(hy))
	} else {
		for i := range hx {
			if hx[i] != hy[i] {
				v("headers-differ", id, "name="+hx[i].n, "header %d: %s=%q as sent, %s=%q respelled", i, hx[i].n, clip(hx[i].v, 120), hy[i].n, clip(hy[i].v, 120))
				break
			}
		}
	}
	for _, m := range []*sipwire.Msg{x, y} {
		if cl := m.Get("content-length"); len(cl) != 1 {
			v("content-length-count", id, "", "relayed message carries %d Content-Length fields", len(cl))
			break
		}
	}
	if !bytes.Equal(x.Body, y.Body) {
		v("body-differs", id, "", "bodies differ (%d vs %d bytes)", len(x.Body), len(y.Body))
	}
}

func sameButBranch(a, b string) bool {
	va, e1 := sipwire.ParseVia(a)
	vb, e2 := sipwire.ParseVia(b)
	if e1 != nil || e2 != nil {
		return false
	}
	strip := func(v sipwire.Via) sipwire.Via {
		var ps []sipwire.KV
		for _, p := range v.Params {
			if p.K != "branch" {
				ps = append(ps, p)
			}
		}
		v.Params = ps
		return v
	}
	return viaEqual(strip(va), strip(vb))
}

func init() {
	register("C17", genTwinPlan, execTwin)
}
