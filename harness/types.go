//go:build verif

//go:debug asynctimerchan=0
package main

import (
	"bufio"
	"encoding/json"
	"flag"
	"fmt"
	"os"
	"runtime"
	"sort"
	"strings"
	"sync"
	"testing"
	"time"

	"verif/sim/simnet"
	"verif/sim/simrt"
)

// ---- plans ----

type ListenCfg struct {
	Addr       string   `json:"addr"`
	UDP        int      `json:"udp,omitempty"`
	TCP        int      `json:"tcp,omitempty"`
	Backends   []string `json:"backends,omitempty"`
	NoReceived string   `json:"noReceived,omitempty"` // "", "true", "false"
	MustRR     bool     `json:"mustRR,omitempty"`
}

type RouteCfg struct {
	Dests   []string `json:"dests"`
	Proto   string   `json:"proto"`
	NextHop string   `json:"nextHop"`
}

type HostCfg struct {
	Name string `json:"name"`
	IP   string `json:"ip"`
}

type Cfg struct {
	Name          string              `json:"name"`
	Listens       []ListenCfg         `json:"listens"`
	Routes        []RouteCfg          `json:"routes,omitempty"`
	Hosts         []HostCfg           `json:"hosts,omitempty"`       // per-proxy host table
	GlobalHosts   []HostCfg           `json:"globalHosts,omitempty"` // top-level host table
	KeepNextHop   string              `json:"keepNextHop,omitempty"`
	EnvKeep       string              `json:"envKeep,omitempty"`
	DialogTimeout int                 `json:"dialogTimeout,omitempty"`
	EnvDialogTO   string              `json:"envDialogTO,omitempty"`
	DNS           map[string][]string `json:"dns,omitempty"`
	DNSScript     map[string][]simnet.Answer `json:"dnsScript,omitempty"`
	TCPSinks      []string            `json:"tcpSinks,omitempty"` // actor listeners that accept and record
	Faults        simnet.Faults       `json:"faults"`
	Knobs         map[string]int      `json:"knobs,omitempty"`
}

type Op struct {
	Kind    string `json:"kind"`
	ID      string `json:"id,omitempty"`
	Proto   string `json:"proto,omitempty"` // udp | tcp
	SrcIP   string `json:"srcIP,omitempty"`
	SrcPort int    `json:"srcPort,omitempty"`
	Listen  int    `json:"listen,omitempty"` // index of the listen entry
	Conn    string `json:"conn,omitempty"`   // tcp connection label
	Data    []byte `json:"data,omitempty"`
	Cuts    []int  `json:"cuts,omitempty"`
	DelayUs int64  `json:"delayUs,omitempty"`
	Settle  bool   `json:"settle,omitempty"` // run to quiescence after this op
	Dur     int64  `json:"dur,omitempty"`    // advance: nanoseconds
	S       map[string]string `json:"s,omitempty"`
	I       map[string]int    `json:"i,omitempty"`
	Sub     []Op   `json:"sub,omitempty"`
}

type Plan struct {
	Prop        string   `json:"prop"`
	Seed        uint64   `json:"seed"`
	Variant     string   `json:"variant,omitempty"`
	Sched       int      `json:"sched"`
	PCTDepth    int      `json:"pct,omitempty"`
	StarveName  string   `json:"starveName,omitempty"`
	StarveSteps uint64   `json:"starveSteps,omitempty"`
	MapPerm     bool     `json:"mapPerm,omitempty"`
	PreemptUnlock bool   `json:"preemptUnlock,omitempty"` // lock releases are scheduling points in this world
	Cfg         Cfg      `json:"cfg"`
	Ops         []Op     `json:"ops"`
	Tape        []uint32 `json:"tape,omitempty"`
	Replay      bool     `json:"replay,omitempty"`
	// expected outcome recorded in replay files
	Expect *Expect `json:"expect,omitempty"`
}

type Expect struct {
	Prop string `json:"prop"`
	Rule string `json:"rule"`
	Hash string `json:"hash,omitempty"`
}

type Violation struct {
	Prop   string `json:"prop"`
	Rule   string `json:"rule"`
	Msg    string `json:"msg,omitempty"`
	Sig    string `json:"sig,omitempty"` // discriminating features of the failing input (matched against known findings)
	Detail string `json:"detail"`
}

type Result struct {
	Prop      string            `json:"prop"`
	Seed      uint64            `json:"seed"`
	Variant   string            `json:"variant,omitempty"`
	Viol      []Violation       `json:"viol,omitempty"`
	Infra     []string          `json:"infra,omitempty"`
	Stats     map[string]int    `json:"stats,omitempty"`
	Fired     map[string]int    `json:"fired,omitempty"`
	Hash      string            `json:"hash"`
	Steps     uint64            `json:"steps"`
	Choices   uint64            `json:"choices"`
	Switches  uint64            `json:"switches"`
	SimNs     int64             `json:"simNs"`
	Judged    int               `json:"judged"`  // non-vacuous judgements of this property's oracle
	Class     string            `json:"class"`   // configuration class for distinctness
	StateHash string            `json:"state,omitempty"`
	Sample    json.RawMessage   `json:"sample,omitempty"`
	PlanFile  string            `json:"planFile,omitempty"`
	WallUs    int64             `json:"wallUs"`
	RaceLog   string            `json:"raceLog,omitempty"`
}

// ---- world registry ----

type propImpl struct {
	gen  func(seed uint64, tier string) *Plan
	exec func(t *testing.T, p *Plan) *Result
}

var props = map[string]propImpl{}

func register(id string, gen func(seed uint64, tier string) *Plan, exec func(t *testing.T, p *Plan) *Result) {
	props[id] = propImpl{gen, exec}
}

var (
	fProp    = flag.String("sim.prop", "", "property id")
	fSeed    = flag.Uint64("sim.seed", 1, "base seed")
	fFirst   = flag.Int("sim.first", 0, "index of the first run")
	fRuns    = flag.Int("sim.runs", 1, "number of runs")
	fTier    = flag.String("sim.tier", "quick", "quick | thorough")
	fReplay  = flag.String("sim.replay", "", "replay this plan file")
	fOut     = flag.String("sim.out", "", "directory for plan files of failing runs")
	fTrace   = flag.Bool("sim.trace", false, "print the step trace")
	fDebug   = flag.Bool("sim.debug", false, "verify goroutine identity at every trap")
	fDump    = flag.Bool("sim.dumpplan", false, "always write the realised plan")
	fRecheck = flag.Int("sim.recheck", 0, "re-execute every Nth run from its realised plan and compare hashes")
	fKnown   = flag.String("sim.known", "", "known_findings.json: open findings steer a dedicated slice of runs")
	fDumpMsg = flag.String("sim.dumpmsg", "", "print input and emissions of this message id")
	fWall    = flag.Duration("sim.wall", 60*time.Second, "wall-clock limit for one world (watchdog)")
	fBudget  = flag.Duration("sim.budget", 0, "stop starting new runs after this wall time")
)

var openFindings map[string]bool

// openFinding reports whether the finding id is listed as open; the main body
// of runs avoids its trigger and a dedicated slice of runs aims at it.
func openFinding(id string) bool {
	if openFindings == nil {
		openFindings = map[string]bool{}
		if *fKnown != "" {
			if b, err := os.ReadFile(*fKnown); err == nil {
				var kf struct {
					Findings []struct {
						ID     string `json:"id"`
						Status string `json:"status"`
					} `json:"findings"`
				}
				if json.Unmarshal(b, &kf) == nil {
					for _, f := range kf.Findings {
						if f.Status == "" || f.Status == "open" {
							openFindings[f.ID] = true
						}
					}
				}
			}
		}
	}
	return openFindings[id]
}

func runSeed(base uint64, i int) uint64 { return simrt.Mix(base, uint64(i)+1) }

// watchdog: the simulator cannot take the baton away from a goroutine that
// spins without ever reaching a scheduling point. If one world takes longer
// than the wall limit, the stacks tell whether a goroutine of the program
// under test is running: then it is reported as a cpu-spin violation of the
// property being checked when that property is about staying alive (C08,
// C09), else as an infrastructure problem; the process ends either way.
var (
	wdMu    sync.Mutex
	wdStart time.Time
	wdSeed  uint64
	wdProp  string
	wdPlan  string
)

func watchdog(limit time.Duration) {
	for {
		time.Sleep(time.Second)
		wdMu.Lock()
		start, seed, prop, plan := wdStart, wdSeed, wdProp, wdPlan
		wdMu.Unlock()
		if start.IsZero() || time.Since(start) < limit {
			continue
		}
		buf := make([]byte, 1<<20)
		n := runtime.Stack(buf, true)
		var spinning string
		for _, g := range strings.Split(string(buf[:n]), "\n\n") {
			head := g
			if i := strings.IndexByte(g, '\n'); i > 0 {
				head = g[:i]
			}
			if (strings.Contains(head, "[running") || strings.Contains(head, "[runnable")) && stackInRepo(g) && !strings.Contains(g, "watchdog(") {
				spinning = g
				break
			}
		}
		r := &Result{Prop: prop, Seed: seed, PlanFile: plan, Hash: "watchdog"}
		if spinning != "" && (prop == "C08" || prop == "C09") {
			r.Viol = []Violation{{Prop: prop, Rule: "cpu-spin", Sig: panicSig("x\n" + spinning), Detail: fmt.Sprintf("a goroutine of the program has been running for %v of wall time without reaching a scheduling point (an endless loop):\n%s", limit, clip(spinning, 2500))}}
		} else {
			r.Infra = []string{fmt.Sprintf("watchdog: world of seed %d did not finish within %v of wall time\n%s", seed, limit, clip(spinning, 1500))}
		}
		b, _ := json.Marshal(r)
		fmt.Printf("SIMRESULT %s\n", b)
		os.Stdout.Sync()
		os.Exit(3)
	}
}

func TestSim(t *testing.T) {
	if *fProp == "" && *fReplay == "" {
		t.Skip("no -sim.prop")
	}
	go watchdog(*fWall)
	out := bufio.NewWriter(os.Stdout)
	defer out.Flush()
	emit := func(r *Result) {
		b, _ := json.Marshal(r)
		fmt.Fprintf(out, "SIMRESULT %s\n", b)
		out.Flush()
	}
	if *fReplay != "" {
		b, err := os.ReadFile(*fReplay)
		if err != nil {
			t.Fatal(err)
		}
		var p Plan
		if err := json.Unmarshal(b, &p); err != nil {
			t.Fatal(err)
		}
		impl, ok := props[p.Prop]
		if !ok {
			t.Fatalf("unknown property %q", p.Prop)
		}
		p.Replay = true
		r := execPlan(t, impl, &p)
		// The race detector's shadow state depends on which runtime thread slot a goroutine
		// happens to get, so one execution can miss a report that another one makes; the
		// event log is identical every time. Re-execute a few times until it shows.
		for i := 0; i < 3 && simrt.RaceEnabled && len(r.Viol) == 0 && len(r.Infra) == 0 && p.Expect != nil && p.Expect.Rule == "data-race"; i++ {
			r = execPlan(t, impl, &p)
		}
		emit(r)
		return
	}
	impl, ok := props[*fProp]
	if !ok {
		t.Fatalf("unknown property %q", *fProp)
	}
	start := time.Now()
	for i := *fFirst; i < *fFirst+*fRuns; i++ {
		if *fBudget > 0 && time.Since(start) > *fBudget {
			break
		}
		seed := runSeed(*fSeed, i)
		p := impl.gen(seed, *fTier)
		p.Prop = *fProp
		p.Seed = seed
		// swarm: in a third of the worlds releasing a lock is a scheduling point as well
		p.PreemptUnlock = simrt.Mix(seed, 0x756e6c6b)%3 == 0
		r := execPlan(t, impl, p)
		if (len(r.Viol) > 0 || len(r.Infra) > 0 || *fDump) && *fOut != "" {
			name := fmt.Sprintf("%s/%s-%d.plan.json", *fOut, *fProp, seed)
			b, _ := json.Marshal(p)
			if err := os.WriteFile(name, b, 0o644); err == nil {
				r.PlanFile = name
			}
		}
		if *fRecheck > 0 && i%*fRecheck == 0 && len(r.Infra) == 0 {
			// determinism re-check: replay the realised plan, hashes must agree
			q := *p
			q.Replay = true
			r2 := execPlan(t, impl, &q)
			// (race reports are de-duplicated per process: under -race only the event log is compared)
			if r2.Hash != r.Hash || (len(r2.Viol) != len(r.Viol) && !simrt.RaceEnabled) {
				r.Infra = append(r.Infra, fmt.Sprintf("determinism: replay of realised plan diverged (%s vs %s, viol %d vs %d)", r.Hash, r2.Hash, len(r.Viol), len(r2.Viol)))
			} else {
				if r.Stats == nil {
					r.Stats = map[string]int{}
				}
				r.Stats["determinism-rechecks"]++
			}
		}
		emit(r)
		if simrt.RaceEnabled && simrt.RaceErrors() > 0 {
			// the race runtime de-duplicates reports per process: stop here
			break
		}
	}
}

func execPlan(t *testing.T, impl propImpl, p *Plan) *Result {
	t0 := time.Now()
	wdMu.Lock()
	wdStart, wdSeed, wdProp = t0, p.Seed, p.Prop
	wdPlan = ""
	if *fOut != "" && !p.Replay {
		// written before the run so that a hang leaves a replayable plan behind
		wdPlan = fmt.Sprintf("%s/%s-%d.plan.json", *fOut, p.Prop, p.Seed)
	}
	wdMu.Unlock()
	if wdPlan != "" && (p.Prop == "C08" || p.Prop == "C09") {
		b, _ := json.Marshal(p)
		os.WriteFile(wdPlan, b, 0o644)
	}
	defer func() {
		wdMu.Lock()
		wdStart = time.Time{}
		wdMu.Unlock()
	}()
	r := impl.exec(t, p)
	if wdPlan != "" && (p.Prop == "C08" || p.Prop == "C09") && len(r.Viol) == 0 && len(r.Infra) == 0 && !*fDump {
		os.Remove(wdPlan)
	}
	r.Prop = p.Prop
	r.Seed = p.Seed
	r.Variant = p.Variant
	r.WallUs = time.Since(t0).Microseconds()
	return r
}

// ---- helpers shared by all worlds ----

func kernelConfig(p *Plan) simrt.Config {
	return simrt.Config{Seed: p.Seed, Tape: p.Tape, Replay: p.Replay, Sched: p.Sched, PCTDepth: p.PCTDepth,
		StarveName: p.StarveName, StarveSteps: p.StarveSteps, MapPerm: p.MapPerm, PreemptUnlock: p.PreemptUnlock, ChanCapDiv: p.Cfg.Knobs["chanCapDiv"], RecvCost: time.Duration(p.Cfg.Knobs["recvCostUs"]) * time.Microsecond, Trace: *fTrace, Debug: *fDebug, MaxSteps: uint64(p.Cfg.Knobs["maxSteps"])}
}

func finish(w *World, p *Plan, r *Result) {
	k := w.K
	if !p.Replay {
		p.Tape = append([]uint32(nil), k.Tape()...)
	}
	r.Hash = fmt.Sprintf("%016x", k.TraceHash)
	r.Steps = k.Step
	r.Choices = k.Choices
	r.Switches = k.Switches
	r.SimNs = int64(k.SimTime)
	r.Viol = w.Viol
	r.Stats = w.Stats
	r.Fired = w.N.Fired
	if r.StateHash == "" {
		r.StateHash = abstractHistory(w)
	}
	for _, f := range k.Failures {
		r.Infra = append(r.Infra, f)
	}
	if k.StepLimit {
		r.Infra = append(r.Infra, "step-limit")
	}
	if k.Abandoned {
		r.Stats["skipped:world-abandoned-long-time-jump-over-periodic-program-timers"]++
	}
	if *fTrace {
		for _, l := range k.TraceLog {
			fmt.Fprintln(os.Stderr, l)
		}
		for _, e := range w.decodeEmissions(0) {
			first := ""
			if e.M != nil {
				first = e.M.StartLine
			}
			fmt.Fprintf(os.Stderr, "EMISSION #%d step=%d %v %s %s>%s id=%s err=%q %s\n", e.E.Seq, e.E.Step, e.E.At, e.E.Proto, e.E.Src, e.E.Dst, e.ID, e.E.Err, clip(first, 60))
		}
	}
}

// abstractHistory: a hash of what the proxy did, abstracted from payloads and
// times: the sequence of (transport, destination, method or status) of its
// emissions, the dial / close / refused events and the DNS answers. Two runs
// with the same value behaved alike at the network boundary; the number of
// distinct values in a batch is the "distinct abstract states" of the evidence.
func abstractHistory(w *World) string {
	h := uint64(1469598103934665603)
	mix := func(s string) {
		for i := 0; i < len(s); i++ {
			h ^= uint64(s[i])
			h *= 1099511628211
		}
		h ^= 0xff
		h *= 1099511628211
	}
	for _, e := range w.N.Emissions {
		mix(e.Proto)
		mix(e.Dst)
		d := e.Data
		if i := strings.IndexByte(string(d[:min(len(d), 40)]), ' '); i > 0 {
			if strings.HasPrefix(string(d), "SIP/") && len(d) > i+4 {
				mix(string(d[i+1 : i+4]))
			} else {
				mix(string(d[:i]))
			}
		}
		mix(e.Err)
	}
	for _, ev := range w.N.Events {
		switch ev.Kind {
		case "tcp-connect", "tcp-refused", "tcp-close", "tcp-reset", "udp-close", "dns", "tcp-write-error":
			mix(ev.Kind)
			mix(ev.B)
		}
	}
	return fmt.Sprintf("%016x", h)
}

func min(a, b int) int {
	if a < b {
		return a
	}
	return b
}

func sortedKeys(m map[string]int) []string {
	var ks []string
	for k := range m {
		ks = append(ks, k)
	}
	sort.Strings(ks)
	return ks
}

// stackInRepo: does the stack contain a frame of the program under test (a
// rewritten file of the scratch copy, not a harness file)?
func stackInRepo(stack string) bool {
	for _, l := range strings.Split(stack, "\n") {
		l = strings.TrimSpace(l)
		i := strings.Index(l, ".go:")
		if i < 0 || !strings.HasPrefix(l, "/") {
			continue
		}
		path := l[:i+3]
		slash := strings.LastIndexByte(path, '/')
		dir, base := path[:slash], path[slash+1:]
		if strings.HasSuffix(dir, "/src") && !strings.HasPrefix(base, "zz_") {
			return true
		}
	}
	return false
}

var _ = runtime.NumGoroutine
