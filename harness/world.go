//go:build verif

package main

import (
	"fmt"
	"net"
	"os"
		"strconv"
	"strings"
	"testing"
	"time"

	"github.com/google/uuid"

	"verif/sim/simnet"
	"verif/sim/simrt"
	"verif/sim/sipwire"
)

// World is one simulated deployment: the real proxy started from YAML inside
// the simulator, plus scripted parties.
type World struct {
	T     *testing.T
	K     *simrt.Kernel
	N     *simnet.Net
	P     *Plan
	Viol  []Violation
	Stats map[string]int
	Prop  string

	StartErr  string
	conns     map[string]*simnet.TCPEnd // actor connections by label
	Delivered []*Delivery               // what reached actors
	sinks     map[string]*simnet.TCPListener
	udpActors map[string]*simnet.UDPSock
	OnDeliver func(d *Delivery)
	decoded   []*Emitted
	sinkEnds  map[int]*simnet.TCPEnd // connection id -> the party's end of a connection the proxy opened
}

// Delivery is a message (or raw bytes) that reached a simulated party.
type Delivery struct {
	Step   uint64
	At     time.Duration
	Proto  string
	Local  string // party address
	From   string // source address as seen by the party
	ConnID int
	Data   []byte
}

func (w *World) violate(rule, msg, format string, a ...interface{}) {
	w.Viol = append(w.Viol, Violation{Prop: w.Prop, Rule: rule, Msg: msg, Detail: fmt.Sprintf(format, a...)})
}

func (w *World) stat(name string) { w.Stats[name]++ }

func yamlQuote(s string) string {
	return strconv.Quote(s)
}

// yamlOf renders the configuration the way an operator would write it.
func yamlOf(c *Cfg) string {
	var b strings.Builder
	b.WriteString("proxies:\n")
	fmt.Fprintf(&b, "- name: %s\n", yamlQuote(c.Name))
	if c.DialogTimeout != 0 {
		fmt.Fprintf(&b, "  dialogTimeout: %d\n", c.DialogTimeout)
	}
	if c.KeepNextHop != "" {
		fmt.Fprintf(&b, "  keepNextHopRoute: %s\n", yamlQuote(c.KeepNextHop))
	}
	b.WriteString("  listens:\n")
	for _, l := range c.Listens {
		fmt.Fprintf(&b, "  - address: %s\n", l.Addr)
		if l.UDP != 0 {
			fmt.Fprintf(&b, "    udp-port: %d\n", l.UDP)
		}
		if l.TCP != 0 {
			fmt.Fprintf(&b, "    tcp-port: %d\n", l.TCP)
		}
		if l.NoReceived != "" {
			fmt.Fprintf(&b, "    no-received: %s\n", l.NoReceived)
		}
		if l.MustRR {
			b.WriteString("    must-record-route: true\n")
		}
		if len(l.Backends) > 0 {
			b.WriteString("    backends:\n")
			for _, be := range l.Backends {
				fmt.Fprintf(&b, "    - %s\n", be)
			}
		}
	}
	if len(c.Routes) > 0 {
		b.WriteString("  route:\n")
		for _, r := range c.Routes {
			b.WriteString("  - dests:\n")
			for _, d := range r.Dests {
				fmt.Fprintf(&b, "    - %s\n", yamlQuote(d))
			}
			fmt.Fprintf(&b, "    protocol: %s\n", r.Proto)
			fmt.Fprintf(&b, "    nexthop: %s\n", yamlQuote(r.NextHop))
		}
	}
	if len(c.Hosts) > 0 {
		b.WriteString("  hosts:\n")
		for _, h := range c.Hosts {
			fmt.Fprintf(&b, "  - name: %s\n    ip: %s\n", h.Name, h.IP)
		}
	}
	if len(c.GlobalHosts) > 0 {
		b.WriteString("hosts:\n")
		for _, h := range c.GlobalHosts {
			fmt.Fprintf(&b, "- name: %s\n  ip: %s\n", h.Name, h.IP)
		}
	}
	return b.String()
}

// runWorld builds a world for plan p, starts the proxy from the plan's
// configuration and hands control to body (kernel context).
func runWorld(t *testing.T, p *Plan, body func(w *World)) *World {
	return runWorldKeep(t, p, nil, body)
}

// runWorldKeep: with keep != nil the proxy is started by a harness copy of
// startProxy's body that remembers the Proxy objects (in-package observation
// of the pin table for C15's purge check); otherwise by the real startProxy.
func runWorldKeep(t *testing.T, p *Plan, keep *[]*Proxy, body func(w *World)) *World {
	w := &World{T: t, P: p, Stats: map[string]int{}, Prop: p.Prop,
		conns: map[string]*simnet.TCPEnd{}, sinks: map[string]*simnet.TCPListener{}, udpActors: map[string]*simnet.UDPSock{}}
	// environment read by the proxy
	setenv("KEEP_NEXT_HOP_ROUTE", p.Cfg.EnvKeep)
	setenv("DEFAULT_DIALOG_TIMEOUT", p.Cfg.EnvDialogTO)
	k := simrt.RunWorld(t, kernelConfig(p), func(k *simrt.Kernel) {
		w.K = k
		defIP := "10.0.0.1"
		if len(p.Cfg.Listens) > 0 {
			defIP = p.Cfg.Listens[0].ip()
		}
		w.N = simnet.New(k, defIP)
		for _, l := range p.Cfg.Listens {
			w.N.LocalIPs = append(w.N.LocalIPs, l.ip())
		}
		w.N.F = p.Cfg.Faults
		if w.N.F.MaxSegs < 2 {
			w.N.F.MaxSegs = 6
		}
		for name, ips := range p.Cfg.DNS {
			w.N.DNS.Static[name] = ips
		}
		for name, sc := range p.Cfg.DNSScript {
			w.N.DNS.Script[name] = sc
		}
		if p.Cfg.Knobs["dnsPeriodMs"] > 0 {
			w.N.DNS.Period = time.Duration(p.Cfg.Knobs["dnsPeriodMs"]) * time.Millisecond
		}
		for _, s := range p.Cfg.TCPSinks {
			w.TCPSink(s)
		}
		w.startProxy(yamlOf(&p.Cfg), keep)
		if w.StartErr == "" && !w.dead() {
			body(w)
		}
		w.collectPanics()
	})
	w.K = k
	return w
}

func setenv(k, v string) {
	if v == "" {
		os.Unsetenv(k)
	} else {
		os.Setenv(k, v)
	}
}

func (w *World) startProxy(yamlText string, keep *[]*Proxy) {
	done := false
	stopResolver := w.P.Cfg.Knobs["stopResolver"] == 1
	w.K.Spawn("main", false, func() {
		uuid.SetRand(simrt.Entropy{})
		dynamicHostResolver = NewDynamicHostResolver(2)
		config, err := loadConfigFromReader(strings.NewReader(yamlText))
		if err != nil {
			w.StartErr = "config: " + err.Error()
			return
		}
		for _, proxy := range config.Proxies {
			preConfigRoute := createPreConfigRoute(proxy)
			resolver := createPreConfigHostResolver(config.Hosts, proxy)
			if keep != nil && startProxyKeepFn != nil {
				err = startProxyKeepFn(proxy, preConfigRoute, resolver, keep)
			} else {
				err = startProxy(proxy, preConfigRoute, resolver)
			}
			if err != nil {
				w.StartErr = "startProxy: " + err.Error()
				return
			}
		}
		if stopResolver {
			// worlds without named backends let decades pass: the 2 s poll loop is switched off
			dynamicHostResolver.Stop()
		}
		done = true
	})
	w.K.RunIdle()
	if !done && w.StartErr == "" && !w.dead() && w.K.PendingEvents() > 0 {
		// start-up waits for something that takes (simulated) time: let it pass
		w.K.Settle(10 * time.Second)
	}
	if !done && w.StartErr == "" && !w.dead() {
		// nothing can run any more and start-up has not finished: goroutines of the program waiting for locks (or in a
		// channel send) that nobody will release is a deadlock of the program - the production process would hang at
		// start - not trouble of the harness
		var stuck []string
		for _, g := range w.K.Census() {
			if strings.HasPrefix(g.State, "parked:mutex-lock") || strings.HasPrefix(g.State, "parked:rw-") || g.State == "real:chan-send" {
				stuck = append(stuck, g.Name+" "+g.State)
			}
		}
		if len(stuck) > 0 {
			w.Viol = append(w.Viol, Violation{Prop: w.Prop, Rule: "deadlock-at-start-up", Sig: "",
				Detail: fmt.Sprintf("the proxy did not finish starting: no goroutine can run and these wait for a lock or a queue that nobody will release: %v\n%s", stuck, yamlText)})
			w.StartErr = "deadlock"
			return
		}
		var all []string
		for _, g := range w.K.Census() {
			all = append(all, g.Name+" "+g.State)
		}
		w.StartErr = fmt.Sprintf("start-up did not complete; goroutines: %v", all)
	}
	if w.StartErr != "" {
		w.K.Failures = append(w.K.Failures, "proxy start failed: "+w.StartErr+"\n"+yamlText)
	}
}

// startProxyKeepFn (harness/inpkg_c15.go, optional: left out by build.sh when it does not compile against the tree) is
// startProxy's body keeping the Proxy objects. nil: the in-package view is not available, worlds start the normal way.
var startProxyKeepFn func(config ProxyConfig, preConfigRoute *PreConfigRoute, resolver *PreConfigHostResolver, keep *[]*Proxy) error

func (w *World) dead() bool {
	return len(w.K.Panics) > 0 || len(w.K.Failures) > 0 || w.K.StepLimit || w.K.Abandoned
}

// collectPanics turns panics of simulated goroutines into violations (the
// same panic kills the production process).
func (w *World) collectPanics() {
	for _, g := range w.K.Panics {
		if stackInRepo(g.Stack) && !g.Daemon {
			rule := "panic"
			w.Viol = append(w.Viol, Violation{Prop: w.Prop, Rule: rule, Detail: fmt.Sprintf("goroutine %s panicked: %v\n%s", g.Name, g.Panic, firstFrames(g.Stack, 14))})
		} else {
			w.K.Failures = append(w.K.Failures, fmt.Sprintf("harness goroutine %s panicked: %v\n%s", g.Name, g.Panic, g.Stack))
		}
	}
}

func firstFrames(stack string, n int) string {
	lines := strings.Split(stack, "\n")
	var keep []string
	for _, l := range lines {
		if strings.Contains(l, "runtime/panic.go") || strings.HasPrefix(l, "panic(") || strings.Contains(l, "simrt.(*G).run") {
			continue
		}
		keep = append(keep, l)
		if len(keep) >= n {
			break
		}
	}
	return strings.Join(keep, "\n")
}

// ---- parties ----

func udpAddr(s string) *net.UDPAddr {
	host, port, err := net.SplitHostPort(s)
	if err != nil {
		panic(err)
	}
	p, _ := strconv.Atoi(port)
	return &net.UDPAddr{IP: net.ParseIP(host), Port: p}
}

// UDPParty binds (once) an actor socket that records everything it receives.
func (w *World) UDPParty(addr string) *simnet.UDPSock {
	if s, ok := w.udpActors[addr]; ok {
		return s
	}
	a := udpAddr(addr)
	s := w.N.ActorUDP(a.IP.String(), a.Port, nil)
	s.Handler = func(from *net.UDPAddr, data []byte) {
		d := &Delivery{Step: w.K.Step, At: w.K.Elapsed(), Proto: "udp", Local: addr, From: from.String(), Data: data}
		w.Delivered = append(w.Delivered, d)
		if w.OnDeliver != nil {
			w.OnDeliver(d)
		}
	}
	w.udpActors[addr] = s
	return s
}

// TCPSink listens at addr, accepts everything and records what arrives.
func (w *World) TCPSink(addr string) *simnet.TCPListener {
	if l, ok := w.sinks[addr]; ok {
		return l
	}
	a := udpAddr(addr)
	l := w.N.ActorListen(a.IP.String(), a.Port, func(end *simnet.TCPEnd) {
		w.attachRecorder(end, addr)
		if w.sinkEnds == nil {
			w.sinkEnds = map[int]*simnet.TCPEnd{}
		}
		w.sinkEnds[end.ID] = end
	})
	w.sinks[addr] = l
	return l
}

func (w *World) attachRecorder(end *simnet.TCPEnd, local string) {
	end.OnData = func(b []byte) {
		d := &Delivery{Step: w.K.Step, At: w.K.Elapsed(), Proto: "tcp", Local: local, From: end.Remote.String(), ConnID: end.ID, Data: b}
		w.Delivered = append(w.Delivered, d)
		if w.OnDeliver != nil {
			w.OnDeliver(d)
		}
	}
}

// TCPConnTo returns the actor connection with this label, dialling the
// listener if needed.
func (w *World) TCPConnTo(label, srcIP string, srcPort int, dst string) (*simnet.TCPEnd, error) {
	if c, ok := w.conns[label]; ok && !c.Closed() && !c.IsReset() {
		return c, nil
	}
	c, err := w.N.ActorDial(srcIP, srcPort, dst)
	if err != nil {
		return nil, err
	}
	w.attachRecorder(c, c.Local.String())
	w.conns[label] = c
	return c, nil
}

// ---- emissions ----

// Emitted is a decoded emission of the proxy.
type Emitted struct {
	E    *simnet.Emission
	M    *sipwire.Msg
	Err  error
	ID   string
	skip bool
}

const simIDHeader = "x-sim-id"

func msgID(m *sipwire.Msg) string {
	if v, ok := m.First(simIDHeader); ok {
		return v
	}
	return ""
}

// decodeEmissions parses every emission (one datagram / one TCP write = one
// message: the proxy serialises with Bytes()). Decoding is incremental.
func (w *World) decodeEmissions(from int) []*Emitted {
	for i := len(w.decoded); i < len(w.N.Emissions); i++ {
		e := w.N.Emissions[i]
		em := &Emitted{E: e}
		if e.Proto == "tcp" && (e.Err != "" && len(e.Data) == 0 || e.Err == "reset-while-blocked" || e.Err == "closed-while-blocked") {
			// a write that failed before it took a byte - or that the connection's end cut short while it was
			// blocked on a peer that did not read: the bytes that got out are the head of a message whose sender was
			// told that the write failed (what it does next is judged; the torso is not a relayed message)
			if len(e.Data) > 0 {
				w.stat("probe:write-cut-short-by-the-end-of-a-stalled-connection")
			}
			em.skip = true
			w.decoded = append(w.decoded, em)
			continue
		}
		m, rest, err := sipwire.Parse(e.Data)
		em.M, em.Err = m, err
		if err == nil && len(rest) > 0 {
			em.Err = fmt.Errorf("%d trailing bytes after the message in one datagram/write", len(rest))
		}
		if m != nil {
			em.ID = msgID(m)
		}
		w.decoded = append(w.decoded, em)
	}
	var out []*Emitted
	for _, em := range w.decoded[from:] {
		if !em.skip {
			out = append(out, em)
		}
	}
	return out
}

// listenerOf finds the listen entry (and transport) owning addr.
func (c *Cfg) listenerAt(ip string, port int) (int, string) {
	for i, l := range c.Listens {
		if l.ip() != ip {
			continue
		}
		if l.UDP == port {
			return i, "udp"
		}
		if l.TCP == port {
			return i, "tcp"
		}
	}
	return -1, ""
}

func hostPort(ip string, port int) string { return net.JoinHostPort(ip, strconv.Itoa(port)) }
