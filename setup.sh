#!/bin/bash
# builds the rewriter and warms the go1.26.8 build cache; offline
set -e
export GOFLAGS=-mod=mod GOPROXY=off GOSUMDB=off GOTOOLCHAIN=local
V="${VERIF_DIR:-$(cd "$(dirname "${BASH_SOURCE[0]}")" && pwd)}"
mkdir -p $V/bin
(cd $V/tools && go1.26.8 build -o $V/bin/simprep ./simprep)
(cd $V/sim && go1.26.8 vet ./... )
S=$(mktemp -d)
trap 'rm -rf "$S"' EXIT
bash $V/build.sh "$S" >/dev/null
bash $V/build.sh "$S" race >/dev/null
echo setup ok
