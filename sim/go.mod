module verif/sim

go 1.18
