// Package simatomic replaces package sync/atomic in the rewritten scratch
// copy (rule R1): every operation is the real atomic operation - so the race
// detector sees the edges the program creates - preceded by a scheduling
// point, which makes a check-then-act sequence over atomics an interleaving
// the kernel decides like one over locks.
package simatomic

import (
	"sync/atomic"
	"unsafe"

	"verif/sim/simrt"
)

// yield is a scheduling point when called by a simulated goroutine; in kernel
// context (oracles reading program state) and outside a world it is nothing.
func yield() {
	if simrt.K != nil && simrt.Cur() != nil {
		simrt.Yield()
	}
}

func AddInt32(addr *int32, delta int32) int32 { yield(); return atomic.AddInt32(addr, delta) }
func LoadInt32(addr *int32) int32             { yield(); return atomic.LoadInt32(addr) }
func StoreInt32(addr *int32, val int32)       { yield(); atomic.StoreInt32(addr, val) }
func SwapInt32(addr *int32, new int32) int32  { yield(); return atomic.SwapInt32(addr, new) }
func CompareAndSwapInt32(addr *int32, old, new int32) bool {
	yield()
	return atomic.CompareAndSwapInt32(addr, old, new)
}
func AndInt32(addr *int32, mask int32) int32 { yield(); return atomic.AndInt32(addr, mask) }
func OrInt32(addr *int32, mask int32) int32  { yield(); return atomic.OrInt32(addr, mask) }

type Int32 struct{ v atomic.Int32 }

func (x *Int32) Load() int32                        { yield(); return x.v.Load() }
func (x *Int32) Store(val int32)                    { yield(); x.v.Store(val) }
func (x *Int32) Swap(new int32) int32               { yield(); return x.v.Swap(new) }
func (x *Int32) CompareAndSwap(old, new int32) bool { yield(); return x.v.CompareAndSwap(old, new) }
func (x *Int32) Add(delta int32) int32              { yield(); return x.v.Add(delta) }
func (x *Int32) And(mask int32) int32               { yield(); return x.v.And(mask) }
func (x *Int32) Or(mask int32) int32                { yield(); return x.v.Or(mask) }

func AddInt64(addr *int64, delta int64) int64 { yield(); return atomic.AddInt64(addr, delta) }
func LoadInt64(addr *int64) int64             { yield(); return atomic.LoadInt64(addr) }
func StoreInt64(addr *int64, val int64)       { yield(); atomic.StoreInt64(addr, val) }
func SwapInt64(addr *int64, new int64) int64  { yield(); return atomic.SwapInt64(addr, new) }
func CompareAndSwapInt64(addr *int64, old, new int64) bool {
	yield()
	return atomic.CompareAndSwapInt64(addr, old, new)
}
func AndInt64(addr *int64, mask int64) int64 { yield(); return atomic.AndInt64(addr, mask) }
func OrInt64(addr *int64, mask int64) int64  { yield(); return atomic.OrInt64(addr, mask) }

type Int64 struct{ v atomic.Int64 }

func (x *Int64) Load() int64                        { yield(); return x.v.Load() }
func (x *Int64) Store(val int64)                    { yield(); x.v.Store(val) }
func (x *Int64) Swap(new int64) int64               { yield(); return x.v.Swap(new) }
func (x *Int64) CompareAndSwap(old, new int64) bool { yield(); return x.v.CompareAndSwap(old, new) }
func (x *Int64) Add(delta int64) int64              { yield(); return x.v.Add(delta) }
func (x *Int64) And(mask int64) int64               { yield(); return x.v.And(mask) }
func (x *Int64) Or(mask int64) int64                { yield(); return x.v.Or(mask) }

func AddUint32(addr *uint32, delta uint32) uint32 { yield(); return atomic.AddUint32(addr, delta) }
func LoadUint32(addr *uint32) uint32              { yield(); return atomic.LoadUint32(addr) }
func StoreUint32(addr *uint32, val uint32)        { yield(); atomic.StoreUint32(addr, val) }
func SwapUint32(addr *uint32, new uint32) uint32  { yield(); return atomic.SwapUint32(addr, new) }
func CompareAndSwapUint32(addr *uint32, old, new uint32) bool {
	yield()
	return atomic.CompareAndSwapUint32(addr, old, new)
}
func AndUint32(addr *uint32, mask uint32) uint32 { yield(); return atomic.AndUint32(addr, mask) }
func OrUint32(addr *uint32, mask uint32) uint32  { yield(); return atomic.OrUint32(addr, mask) }

type Uint32 struct{ v atomic.Uint32 }

func (x *Uint32) Load() uint32                        { yield(); return x.v.Load() }
func (x *Uint32) Store(val uint32)                    { yield(); x.v.Store(val) }
func (x *Uint32) Swap(new uint32) uint32              { yield(); return x.v.Swap(new) }
func (x *Uint32) CompareAndSwap(old, new uint32) bool { yield(); return x.v.CompareAndSwap(old, new) }
func (x *Uint32) Add(delta uint32) uint32             { yield(); return x.v.Add(delta) }
func (x *Uint32) And(mask uint32) uint32              { yield(); return x.v.And(mask) }
func (x *Uint32) Or(mask uint32) uint32               { yield(); return x.v.Or(mask) }

func AddUint64(addr *uint64, delta uint64) uint64 { yield(); return atomic.AddUint64(addr, delta) }
func LoadUint64(addr *uint64) uint64              { yield(); return atomic.LoadUint64(addr) }
func StoreUint64(addr *uint64, val uint64)        { yield(); atomic.StoreUint64(addr, val) }
func SwapUint64(addr *uint64, new uint64) uint64  { yield(); return atomic.SwapUint64(addr, new) }
func CompareAndSwapUint64(addr *uint64, old, new uint64) bool {
	yield()
	return atomic.CompareAndSwapUint64(addr, old, new)
}
func AndUint64(addr *uint64, mask uint64) uint64 { yield(); return atomic.AndUint64(addr, mask) }
func OrUint64(addr *uint64, mask uint64) uint64  { yield(); return atomic.OrUint64(addr, mask) }

type Uint64 struct{ v atomic.Uint64 }

func (x *Uint64) Load() uint64                        { yield(); return x.v.Load() }
func (x *Uint64) Store(val uint64)                    { yield(); x.v.Store(val) }
func (x *Uint64) Swap(new uint64) uint64              { yield(); return x.v.Swap(new) }
func (x *Uint64) CompareAndSwap(old, new uint64) bool { yield(); return x.v.CompareAndSwap(old, new) }
func (x *Uint64) Add(delta uint64) uint64             { yield(); return x.v.Add(delta) }
func (x *Uint64) And(mask uint64) uint64              { yield(); return x.v.And(mask) }
func (x *Uint64) Or(mask uint64) uint64               { yield(); return x.v.Or(mask) }

func AddUintptr(addr *uintptr, delta uintptr) uintptr { yield(); return atomic.AddUintptr(addr, delta) }
func LoadUintptr(addr *uintptr) uintptr               { yield(); return atomic.LoadUintptr(addr) }
func StoreUintptr(addr *uintptr, val uintptr)         { yield(); atomic.StoreUintptr(addr, val) }
func SwapUintptr(addr *uintptr, new uintptr) uintptr  { yield(); return atomic.SwapUintptr(addr, new) }
func CompareAndSwapUintptr(addr *uintptr, old, new uintptr) bool {
	yield()
	return atomic.CompareAndSwapUintptr(addr, old, new)
}
func AndUintptr(addr *uintptr, mask uintptr) uintptr { yield(); return atomic.AndUintptr(addr, mask) }
func OrUintptr(addr *uintptr, mask uintptr) uintptr  { yield(); return atomic.OrUintptr(addr, mask) }

type Uintptr struct{ v atomic.Uintptr }

func (x *Uintptr) Load() uintptr                        { yield(); return x.v.Load() }
func (x *Uintptr) Store(val uintptr)                    { yield(); x.v.Store(val) }
func (x *Uintptr) Swap(new uintptr) uintptr             { yield(); return x.v.Swap(new) }
func (x *Uintptr) CompareAndSwap(old, new uintptr) bool { yield(); return x.v.CompareAndSwap(old, new) }
func (x *Uintptr) Add(delta uintptr) uintptr            { yield(); return x.v.Add(delta) }
func (x *Uintptr) And(mask uintptr) uintptr             { yield(); return x.v.And(mask) }
func (x *Uintptr) Or(mask uintptr) uintptr              { yield(); return x.v.Or(mask) }

func LoadPointer(addr *unsafe.Pointer) unsafe.Pointer       { yield(); return atomic.LoadPointer(addr) }
func StorePointer(addr *unsafe.Pointer, val unsafe.Pointer) { yield(); atomic.StorePointer(addr, val) }
func SwapPointer(addr *unsafe.Pointer, new unsafe.Pointer) unsafe.Pointer {
	yield()
	return atomic.SwapPointer(addr, new)
}
func CompareAndSwapPointer(addr *unsafe.Pointer, old, new unsafe.Pointer) bool {
	yield()
	return atomic.CompareAndSwapPointer(addr, old, new)
}

type Bool struct{ v atomic.Bool }

func (x *Bool) Load() bool                        { yield(); return x.v.Load() }
func (x *Bool) Store(val bool)                    { yield(); x.v.Store(val) }
func (x *Bool) Swap(new bool) bool                { yield(); return x.v.Swap(new) }
func (x *Bool) CompareAndSwap(old, new bool) bool { yield(); return x.v.CompareAndSwap(old, new) }

type Value struct{ v atomic.Value }

func (x *Value) Load() any                        { yield(); return x.v.Load() }
func (x *Value) Store(val any)                    { yield(); x.v.Store(val) }
func (x *Value) Swap(new any) any                 { yield(); return x.v.Swap(new) }
func (x *Value) CompareAndSwap(old, new any) bool { yield(); return x.v.CompareAndSwap(old, new) }

type Pointer[T any] struct{ v atomic.Pointer[T] }

func (x *Pointer[T]) Load() *T                        { yield(); return x.v.Load() }
func (x *Pointer[T]) Store(val *T)                    { yield(); x.v.Store(val) }
func (x *Pointer[T]) Swap(new *T) *T                  { yield(); return x.v.Swap(new) }
func (x *Pointer[T]) CompareAndSwap(old, new *T) bool { yield(); return x.v.CompareAndSwap(old, new) }
