// Package simnet replaces package net in the rewritten scratch copy. The pure
// parts of package net are re-exported; sockets, connections and name
// resolution are objects of the simulator kernel, so every datagram and every
// TCP byte the program emits is observed, and delivery order, latency,
// duplication, loss, segmentation, short reads, connection faults and DNS
// outcomes are decided by the world's plan.
package simnet

import (
	"errors"
	"fmt"
	"io"
	"net"
	"net/netip"
	"os"
	"sort"
	"strconv"
	"syscall"
	"time"
	"unsafe"

	"verif/sim/simrt"
)

type (
	Addr         = net.Addr
	Conn         = net.Conn
	Listener     = net.Listener
	PacketConn   = net.PacketConn
	IP           = net.IP
	IPMask       = net.IPMask
	IPNet        = net.IPNet
	UDPAddr      = net.UDPAddr
	TCPAddr      = net.TCPAddr
	IPAddr       = net.IPAddr
	Error        = net.Error
	OpError      = net.OpError
	AddrError    = net.AddrError
	DNSError     = net.DNSError
	HardwareAddr = net.HardwareAddr
	// Buffers is the real type: on a simulated connection its WriteTo takes the generic path, one Write per buffer,
	// consuming what was written also when a write fails - what the real one does on a connection without writev
	Buffers             = net.Buffers
	ParseError          = net.ParseError
	UnknownNetworkError = net.UnknownNetworkError
	InvalidAddrError    = net.InvalidAddrError
	KeepAliveConfig     = net.KeepAliveConfig
)

var (
	ParseIP       = net.ParseIP
	ParseCIDR     = net.ParseCIDR
	JoinHostPort  = net.JoinHostPort
	SplitHostPort = net.SplitHostPort
	IPv4          = net.IPv4
	CIDRMask      = net.CIDRMask
	ErrClosed     = net.ErrClosed
	IPv4zero      = net.IPv4zero
	IPv6zero      = net.IPv6zero
	IPv4Mask      = net.IPv4Mask
	IPv6loopback  = net.IPv6loopback
	IPv6unspecified = net.IPv6unspecified
	LookupPort    = net.LookupPort
)

const (
	IPv4len = net.IPv4len
	IPv6len = net.IPv6len
)

// N is the network of the world currently running.
var N *Net

// Emission is one write of the program towards the network.
type Emission struct {
	Seq    int
	Step   uint64
	At     time.Duration
	Proto  string // "udp" or "tcp"
	Src    string
	Dst    string
	ConnID int // tcp: connection id; udp: 0
	Data   []byte
	G      string
	Err    string // tcp: write error injected (Data holds the accepted prefix)
}

// NetEvent is any other observable event (dial, accept, close, lookup...).
type NetEvent struct {
	Step   uint64
	At     time.Duration
	Kind   string
	A, B   string
	ConnID int
	Info   string
}

type Datagram struct {
	From *net.UDPAddr
	Data []byte
}

type UDPSock struct {
	n       *Net
	Local   *net.UDPAddr
	Proxy   bool // owned by the program
	queue   []Datagram
	closed  bool
	Handler func(from *net.UDPAddr, data []byte) // actor sockets
	Reads   int
	Recvd   int

	// Connected: the peer of a socket made with DialUDP. Such a socket sees only that peer's datagrams, and an ICMP
	// port-unreachable answer to something it sent is reported once by its next Write or Read (as on Linux).
	Connected *net.UDPAddr
	pendErr   error
	rdl, wdl  time.Time // read / write deadlines (zero: none)
}

type Faults struct {
	MinLat, MaxLat time.Duration // one-way latency range for datagrams and segments
	DropPct        int           // per datagram
	DupPct         int           // per datagram
	SegPct         int           // probability (percent) that a TCP write is cut into several segments
	ShortReadPct   int           // probability that a Read returns fewer bytes than available
	MaxSegs        int
	LatGrid        int // >0: latencies are drawn from this many equidistant values
	UDPWriteErrPct int // probability that a datagram write of the program fails (ENOBUFS) and nothing is sent
	UDPBindErrPct  int // probability that the program's bind of a datagram socket to an ephemeral port fails (EMFILE)
}

type Net struct {
	K         *simrt.Kernel
	DefaultIP string
	// LocalIPs: further addresses of the host the program runs on. A socket bound to the wildcard address receives
	// what is sent to the host's addresses (DefaultIP, LocalIPs, the unspecified address), not what is sent to others.
	LocalIPs []string
	F         Faults
	udp       map[string]*UDPSock
	listeners map[string]*TCPListener
	Conns     []*TCPEnd
	eph       map[string]int
	DNS       *DNS

	Emissions []*Emission
	FailedUDP []*Emission // datagram writes of the program that returned an error (nothing was sent)
	Events    []NetEvent
	Fired     map[string]int // fault kinds that actually fired

	// MaxProxyTCPConns > 0: the program may hold at most this many open connections (its descriptor limit, counting
	// connections only); accept fails with EMFILE beyond it.
	MaxProxyTCPConns int

	// DialFaults: scripted outcomes for the program's dials, keyed by
	// destination "ip:port"; consumed in order.
	DialFaults map[string][]string // "refuse" | "reset" (accept then reset) | "ok"
	// WriteFaults: scripted write failures for connections dialled by the program to dst, per dial index
	OnProxyDial func(dst string, end *TCPEnd)

	// ProxyUDPFate lets the harness override the fate of a datagram the
	// program sends (nil: Faults apply).
	UDPTap func(e *Emission)
}

func New(k *simrt.Kernel, defaultIP string) *Net {
	n := &Net{K: k, DefaultIP: defaultIP,
		udp: map[string]*UDPSock{}, listeners: map[string]*TCPListener{}, eph: map[string]int{},
		Fired: map[string]int{}, DialFaults: map[string][]string{}}
	n.DNS = &DNS{n: n, Static: map[string][]string{}, Script: map[string][]Answer{}, pos: map[string]int{}}
	n.F.MaxSegs = 6
	N = n
	k.Ext["net"] = n
	return n
}

func (n *Net) event(kind, a, b string, conn int, info string) {
	n.Events = append(n.Events, NetEvent{Step: n.K.Step, At: n.K.Elapsed(), Kind: kind, A: a, B: b, ConnID: conn, Info: info})
	if n.K.Cfg.Trace {
		n.K.Tracef("net %s %s %s conn=%d %s", kind, a, b, conn, info)
	}
}

func (n *Net) latency() time.Duration {
	lo, hi := n.F.MinLat, n.F.MaxLat
	if hi <= lo {
		return lo
	}
	if g := n.F.LatGrid; g > 0 {
		// a coarse grid makes arrivals coincide: simulated time only advances at
		// quiescence, so only simultaneous arrivals are processed concurrently
		return lo + (hi-lo)*time.Duration(n.K.Draw(g+1))/time.Duration(g)
	}
	// microsecond resolution keeps the tape values small
	span := int((hi - lo) / time.Microsecond)
	return lo + time.Duration(n.K.Draw(span+1))*time.Microsecond
}

func pct(k *simrt.Kernel, p int) bool {
	if p <= 0 {
		return false
	}
	return k.Draw(100) < p
}

func udpKey(ip net.IP, port int) string {
	if ip == nil || ip.IsUnspecified() {
		return ":" + strconv.Itoa(port)
	}
	return ip.String() + ":" + strconv.Itoa(port)
}

func (n *Net) ephemeral(ip string, used func(port int) bool) int {
	p := n.eph[ip]
	if p == 0 {
		p = 32768
	}
	for used(p) {
		p++
	}
	n.eph[ip] = p + 1
	return p
}

// ---- UDP ----

func (n *Net) udpInUse(ip net.IP, port int) bool {
	if _, ok := n.udp[udpKey(ip, port)]; ok {
		return true
	}
	wild := ip == nil || ip.IsUnspecified()
	for _, s := range n.udp {
		if s.Local.Port != port {
			continue
		}
		swild := s.Local.IP == nil || s.Local.IP.IsUnspecified()
		if wild || swild {
			return true
		}
	}
	return false
}

func (n *Net) bindUDP(laddr *net.UDPAddr, proxy bool) (*UDPSock, error) {
	var ip net.IP
	port := 0
	if laddr != nil {
		ip = laddr.IP
		port = laddr.Port
	}
	if ip != nil && ip.IsUnspecified() {
		ip = nil
	}
	if port == 0 && proxy && pct(n.K, n.F.UDPBindErrPct) {
		n.Fired["udp-bind-emfile"]++
		n.event("udp-bind-error", "", "", 0, "emfile")
		return nil, &net.OpError{Op: "listen", Net: "udp", Addr: laddr, Err: syscall.EMFILE}
	}
	if port == 0 {
		port = n.ephemeral("udp/"+ip.String(), func(p int) bool { return n.udpInUse(ip, p) })
	} else if n.udpInUse(ip, port) {
		return nil, &net.OpError{Op: "listen", Net: "udp", Addr: laddr, Err: errors.New("bind: address already in use")}
	}
	s := &UDPSock{n: n, Local: &net.UDPAddr{IP: ip, Port: port}, Proxy: proxy}
	n.udp[udpKey(ip, port)] = s
	n.event("udp-bind", s.Local.String(), "", 0, fmt.Sprint("proxy=", proxy))
	return s, nil
}

// ActorUDP binds a socket owned by a simulated party (kernel context).
func (n *Net) ActorUDP(ip string, port int, h func(from *net.UDPAddr, data []byte)) *UDPSock {
	s, err := n.bindUDP(&net.UDPAddr{IP: net.ParseIP(ip), Port: port}, false)
	if err != nil {
		panic(err)
	}
	s.Handler = h
	return s
}

func (s *UDPSock) srcAddr() *net.UDPAddr {
	if s.Local.IP == nil {
		return &net.UDPAddr{IP: net.ParseIP(s.n.DefaultIP), Port: s.Local.Port}
	}
	return s.Local
}

func (n *Net) findUDP(dst *net.UDPAddr) *UDPSock {
	if s, ok := n.udp[udpKey(dst.IP, dst.Port)]; ok {
		return s
	}
	if s, ok := n.udp[udpKey(nil, dst.Port)]; ok && n.isLocal(dst.IP) {
		return s
	}
	return nil
}

func (n *Net) isLocal(ip net.IP) bool {
	if ip == nil || ip.IsUnspecified() || ip.String() == n.DefaultIP {
		return true
	}
	for _, l := range n.LocalIPs {
		if ip.String() == l {
			return true
		}
	}
	return false
}

func (n *Net) arriveUDP(from, dst *net.UDPAddr, data []byte) {
	s := n.findUDP(dst)
	if s != nil && !s.closed && s.Connected != nil && !(s.Connected.IP.Equal(from.IP) && s.Connected.Port == from.Port) {
		n.event("udp-not-from-connected-peer", from.String(), dst.String(), 0, "")
		s = nil
	}
	if s == nil || s.closed {
		n.Fired["udp-unreachable"]++
		n.event("udp-unreachable", from.String(), dst.String(), 0, "")
		if src := n.findUDP(from); src != nil && src.Proxy && src.Connected != nil && !src.closed {
			// the ICMP answer travels back to a connected socket
			n.K.After(n.latency(), "icmp-unreachable "+dst.String()+">"+from.String(), func() {
				src.pendErr = &net.OpError{Op: "write", Net: "udp", Addr: dst, Err: syscall.ECONNREFUSED}
				n.Fired["udp-icmp-to-connected-socket"]++
			})
		}
		return
	}
	s.Recvd++
	if s.Proxy {
		s.queue = append(s.queue, Datagram{From: from, Data: data})
		n.event("udp-arrive", from.String(), dst.String(), 0, strconv.Itoa(len(data)))
		return
	}
	if s.Handler != nil {
		s.Handler(from, data)
	}
}

// SendUDP sends a datagram through the simulated network subject to Faults.
// Used for the program's writes and (through UDPSock.Send) for actors.
func (n *Net) sendUDP(from, dst *net.UDPAddr, data []byte) {
	if pct(n.K, n.F.DropPct) {
		n.Fired["udp-drop"]++
		n.event("udp-drop", from.String(), dst.String(), 0, "")
		return
	}
	lat := n.latency()
	n.K.After(lat, "udp "+from.String()+">"+dst.String(), func() { n.arriveUDP(from, dst, data) })
	if pct(n.K, n.F.DupPct) {
		n.Fired["udp-dup"]++
		lat2 := n.latency()
		n.K.After(lat2, "udp-dup "+from.String()+">"+dst.String(), func() { n.arriveUDP(from, dst, data) })
	}
}

// Send sends from an actor socket (kernel context), subject to Faults.
func (s *UDPSock) Send(dst *net.UDPAddr, data []byte) {
	s.n.sendUDP(s.srcAddr(), dst, data)
}

// SendExact delivers after exactly d without faults (kernel context).
func (s *UDPSock) SendExact(dst *net.UDPAddr, data []byte, d time.Duration) {
	from := s.srcAddr()
	s.n.K.After(d, "udp "+from.String()+">"+dst.String(), func() { s.n.arriveUDP(from, dst, data) })
}

// UDPOut is one datagram of a batch.
type UDPOut struct {
	Dst  *net.UDPAddr
	Data []byte
}

// SendBatchExact delivers several datagrams after exactly d in ONE kernel event, in the given order: they are in the
// receiver's socket queue back to back, in that order, before the receiver runs again (a sender that writes twice
// without a pause). No fault draw.
func (s *UDPSock) SendBatchExact(outs []UDPOut, d time.Duration) {
	from := s.srcAddr()
	n := s.n
	name := fmt.Sprintf("udp-batch(%d) %s", len(outs), from.String())
	n.Fired["udp-back-to-back-batch"]++
	n.K.After(d, name, func() {
		for _, o := range outs {
			n.arriveUDP(from, o.Dst, o.Data)
		}
	})
}

// InjectUDP delivers a datagram with an arbitrary (possibly unbound) source.
func (n *Net) InjectUDP(from, dst *net.UDPAddr, data []byte, d time.Duration) {
	n.K.After(d, "udp "+from.String()+">"+dst.String(), func() { n.arriveUDP(from, dst, data) })
}

func (s *UDPSock) Close() {
	s.closed = true
	delete(s.n.udp, udpKey(s.Local.IP, s.Local.Port))
}

func (s *UDPSock) QueueLen() int { return len(s.queue) }

// ProxyUDPSockets lists sockets bound by the program.
func (n *Net) ProxyUDPSockets() []*UDPSock {
	var out []*UDPSock
	for _, s := range n.udp {
		if s.Proxy {
			out = append(out, s)
		}
	}
	sort.Slice(out, func(i, j int) bool { return out[i].Local.String() < out[j].Local.String() })
	return out
}

// ---- program-side UDP API ----

type UDPConn struct{ s *UDPSock }

type listenUDPOp struct {
	n     *Net
	laddr *net.UDPAddr
	s     *UDPSock
	err   error
}

func (o *listenUDPOp) Ready() bool    { return true }
func (o *listenUDPOp) Do()            { o.s, o.err = o.n.bindUDP(o.laddr, true) }
func (o *listenUDPOp) OpName() string { return "listen-udp" }

type dialUDPOp struct {
	n            *Net
	laddr, raddr *net.UDPAddr
	s            *UDPSock
	err          error
}

func (o *dialUDPOp) Ready() bool { return true }
func (o *dialUDPOp) Do() {
	o.s, o.err = o.n.bindUDP(o.laddr, true)
	if o.err == nil {
		o.s.Connected = o.raddr
	}
}
func (o *dialUDPOp) OpName() string { return "dial-udp" }

// DialUDP makes a connected datagram socket.
//
//go:norace
func DialUDP(network string, laddr, raddr *net.UDPAddr) (*UDPConn, error) {
	n := N
	if n == nil {
		return nil, errors.New("simnet: no world")
	}
	if raddr == nil {
		return nil, &net.OpError{Op: "dial", Net: network, Err: errors.New("missing address")}
	}
	var l *net.UDPAddr
	if laddr != nil {
		l = &net.UDPAddr{IP: cloneIP(laddr.IP), Port: laddr.Port}
	}
	op := &dialUDPOp{n: n, laddr: l, raddr: &net.UDPAddr{IP: cloneIP(raddr.IP), Port: raddr.Port}}
	simrt.Trap(op, true)
	if op.err != nil {
		return nil, cloneErr(op.err)
	}
	return &UDPConn{s: op.s}, nil
}

// ListenPacket: datagram sockets only.
func ListenPacket(network, address string) (net.PacketConn, error) {
	switch network {
	case "udp", "udp4", "udp6":
		ip, port, err := resolveHostPort(network, address)
		if err != nil {
			return nil, err
		}
		return ListenUDP(network, &net.UDPAddr{IP: ip, Port: port})
	}
	return nil, fmt.Errorf("simnet: ListenPacket network %q not simulated", network)
}

//go:norace
func ListenUDP(network string, laddr *net.UDPAddr) (*UDPConn, error) {
	n := N
	if n == nil {
		return nil, errors.New("simnet: no world")
	}
	var l *net.UDPAddr
	if laddr != nil {
		l = &net.UDPAddr{IP: cloneIP(laddr.IP), Port: laddr.Port}
	}
	op := &listenUDPOp{n: n, laddr: l}
	simrt.Trap(op, true)
	if op.err != nil {
		return nil, cloneErr(op.err)
	}
	return &UDPConn{s: op.s}, nil
}

//go:norace
func cloneIP(ip net.IP) net.IP {
	if ip == nil {
		return nil
	}
	out := make(net.IP, len(ip))
	for i := 0; i < len(ip); i++ {
		out[i] = ip[i]
	}
	return out
}

// cloneErr rebuilds, on the calling goroutine, an error the kernel created:
// the program must not observe memory written by the kernel goroutine (the
// race detector would see an unsynchronised pair that real sockets do not have).
//
//go:norace
func cloneErr(err error) error {
	switch e := err.(type) {
	case nil:
		return nil
	case *net.OpError:
		return &net.OpError{Op: e.Op, Net: e.Net, Source: e.Source, Addr: e.Addr, Err: cloneErr(e.Err)}
	case *net.DNSError:
		return &net.DNSError{Err: e.Err, Name: e.Name, IsNotFound: e.IsNotFound}
	case *net.AddrError:
		return &net.AddrError{Err: e.Err, Addr: e.Addr}
	case syscall.Errno:
		return e
	}
	if err == io.EOF || err == net.ErrClosed || err == os.ErrDeadlineExceeded || err == net.ErrWriteToConnected {
		return err
	}
	return errors.New(err.Error())
}

//go:norace
func cloneBytes(b []byte) []byte {
	out := make([]byte, len(b))
	for i := 0; i < len(b); i++ {
		out[i] = b[i]
	}
	return out
}

//go:norace
func copyInto(dst, src []byte) int {
	n := len(src)
	if len(dst) < n {
		n = len(dst)
	}
	for i := 0; i < n; i++ {
		dst[i] = src[i]
	}
	return n
}

type readUDPOp struct {
	s    *UDPSock
	max  int
	data []byte
	from *net.UDPAddr
	err  error
}

func (o *readUDPOp) Ready() bool {
	s := o.s
	return len(s.queue) > 0 || s.closed || s.pendErr != nil || (!s.rdl.IsZero() && !time.Now().Before(s.rdl))
}
func (o *readUDPOp) Do() {
	if o.s.closed && len(o.s.queue) == 0 {
		o.err = &net.OpError{Op: "read", Net: "udp", Err: net.ErrClosed}
		return
	}
	if o.s.pendErr != nil {
		o.err = &net.OpError{Op: "read", Net: "udp", Err: syscall.ECONNREFUSED}
		o.s.pendErr = nil
		return
	}
	if len(o.s.queue) == 0 {
		o.err = &net.OpError{Op: "read", Net: "udp", Err: os.ErrDeadlineExceeded}
		o.s.n.Fired["read-deadline-expired"]++
		return
	}
	d := o.s.queue[0]
	o.s.queue = o.s.queue[1:]
	o.s.Reads++
	o.data = d.Data
	if len(o.data) > o.max {
		o.data = o.data[:o.max]
		o.s.n.Fired["udp-truncated-by-buffer"]++
	}
	o.from = &net.UDPAddr{IP: d.From.IP, Port: d.From.Port}
	o.s.n.event("udp-read", d.From.String(), o.s.Local.String(), 0, strconv.Itoa(len(o.data)))
}
func (o *readUDPOp) OpName() string { return "read-udp" }

//go:norace
func (c *UDPConn) ReadFromUDP(b []byte) (int, *net.UDPAddr, error) {
	op := &readUDPOp{s: c.s, max: len(b)}
	armDeadlineWake(c.s.n, c.s.rdl)
	simrt.Trap(op, true)
	if op.err != nil {
		return 0, nil, cloneErr(op.err)
	}
	n := copyInto(b, op.data)
	if n > 0 {
		simrt.RaceWriteRange(unsafe.Pointer(&b[0]), n)
	}
	return n, &net.UDPAddr{IP: cloneIP(op.from.IP), Port: op.from.Port}, nil
}

// ReadFromUDPAddrPort: as the real one, a socket bound to the wildcard address is a dual-stack socket and reports IPv4
// peers as IPv4-mapped IPv6 addresses (callers must Unmap); a socket bound to an IPv4 address reports plain IPv4.
//
//go:norace
func (c *UDPConn) ReadFromUDPAddrPort(b []byte) (int, netip.AddrPort, error) {
	n, a, err := c.ReadFromUDP(b)
	if err != nil || a == nil {
		return n, netip.AddrPort{}, err
	}
	ip, _ := netip.AddrFromSlice(a.IP.To4())
	if c.s.Local.IP == nil {
		ip = netip.AddrFrom16(ip.As16())
	}
	return n, netip.AddrPortFrom(ip, uint16(a.Port)), nil
}

// WriteToUDPAddrPort sends to addr (mapped addresses are unmapped).
func (c *UDPConn) WriteToUDPAddrPort(b []byte, addr netip.AddrPort) (int, error) {
	return c.WriteToUDP(b, &net.UDPAddr{IP: net.IP(addr.Addr().Unmap().AsSlice()), Port: int(addr.Port())})
}

func (c *UDPConn) ReadFrom(b []byte) (int, net.Addr, error) {
	n, a, err := c.ReadFromUDP(b)
	if err != nil {
		return n, nil, err
	}
	return n, a, err
}

type writeUDPOp struct {
	s    *UDPSock
	dst  *net.UDPAddr
	src  []byte // the caller's buffer
	data []byte // its content when the operation is performed
	g    string
	err  error
}

func (o *writeUDPOp) Ready() bool { return true }
func (o *writeUDPOp) Do() {
	n := o.s.n
	o.data = cloneBytes(o.src)
	from := o.s.srcAddr()
	if o.s.closed {
		// the program writes on a socket it has closed: nothing is sent, but where it meant to send is observed
		o.err = &net.OpError{Op: "write", Net: "udp", Err: net.ErrClosed}
		n.event("udp-write-closed", o.s.Local.String(), o.dst.String(), 0, "")
		n.failedUDP(from, o, "closed")
		return
	}
	if !o.s.wdl.IsZero() && !time.Now().Before(o.s.wdl) {
		o.err = &net.OpError{Op: "write", Net: "udp", Err: os.ErrDeadlineExceeded}
		n.Fired["write-deadline-expired"]++
		n.event("udp-write-timeout", from.String(), o.dst.String(), 0, "")
		return
	}
	if o.s.pendErr != nil {
		o.err, o.s.pendErr = o.s.pendErr, nil
		n.Fired["udp-write-econnrefused"]++
		n.event("udp-write-refused", from.String(), o.dst.String(), 0, "")
		n.failedUDP(from, o, "econnrefused")
		return
	}
	if o.dst.Port == 0 {
		o.err = &net.OpError{Op: "write", Net: "udp", Addr: o.dst, Err: syscall.EINVAL}
		n.Fired["udp-write-port-0"]++
		n.event("udp-write-error", from.String(), o.dst.String(), 0, "einval")
		n.failedUDP(from, o, "einval")
		return
	}
	if len(o.data) > 65507 {
		// larger than a UDP datagram over IPv4 can be
		o.err = &net.OpError{Op: "write", Net: "udp", Addr: o.dst, Err: syscall.EMSGSIZE}
		n.Fired["udp-write-emsgsize"]++
		n.event("udp-write-error", from.String(), o.dst.String(), 0, "emsgsize")
		n.failedUDP(from, o, "emsgsize")
		return
	}
	if pct(n.K, n.F.UDPWriteErrPct) {
		o.err = &net.OpError{Op: "write", Net: "udp", Addr: o.dst, Err: syscall.ENOBUFS}
		n.Fired["udp-write-error"]++
		n.event("udp-write-error", from.String(), o.dst.String(), 0, "enobufs")
		n.failedUDP(from, o, "enobufs")
		return
	}
	e := &Emission{Seq: len(n.Emissions), Step: n.K.Step, At: n.K.Elapsed(), Proto: "udp",
		Src: from.String(), Dst: o.dst.String(), Data: o.data, G: o.g}
	n.Emissions = append(n.Emissions, e)
	n.K.HashBytes(o.data)
	if n.K.Cfg.Trace {
		n.K.Tracef("emit udp %s>%s %d bytes", e.Src, e.Dst, len(o.data))
	}
	if n.UDPTap != nil {
		n.UDPTap(e)
	}
	n.sendUDP(from, o.dst, o.data)
}
func (o *writeUDPOp) OpName() string { return "write-udp" }

// failedUDP records a datagram write that returned an error. Nothing was sent, but what the program tried to send is
// an emission all the same (its decision is observed; Err says that the operating system refused it): it is in
// Emissions, marked, and in FailedUDP.
func (n *Net) failedUDP(from *net.UDPAddr, o *writeUDPOp, why string) {
	e := &Emission{Seq: len(n.Emissions), Step: n.K.Step, At: n.K.Elapsed(), Proto: "udp", Src: from.String(), Dst: o.dst.String(), Data: o.data, G: o.g, Err: why}
	n.Emissions = append(n.Emissions, e)
	n.FailedUDP = append(n.FailedUDP, e)
	n.K.HashBytes(o.data)
}

//go:norace
func (c *UDPConn) WriteToUDP(b []byte, addr *net.UDPAddr) (int, error) {
	if addr == nil {
		return 0, &net.OpError{Op: "write", Net: "udp", Err: errors.New("missing address")}
	}
	if c.s.Connected != nil {
		return 0, &net.OpError{Op: "write", Net: "udp", Err: net.ErrWriteToConnected}
	}
	return c.writeTo(b, addr)
}

//go:norace
func (c *UDPConn) writeTo(b []byte, addr *net.UDPAddr) (int, error) {
	g := simrt.Cur()
	name := ""
	if g != nil {
		name = g.Name
	}
	if len(b) > 0 {
		simrt.RaceReadRange(unsafe.Pointer(&b[0]), len(b))
	}
	// The bytes are taken when the operation is performed, not when the caller traps: like a system call, the send reads
	// the caller's buffer at the moment it happens. A caller that lets somebody else write to that buffer before its
	// send has happened (a shared encode buffer whose lock is released too early) sends what is in it then.
	op := &writeUDPOp{s: c.s, dst: &net.UDPAddr{IP: cloneIP(addr.IP), Port: addr.Port}, src: b, g: name}
	simrt.Trap(op, true)
	if op.err != nil {
		return 0, cloneErr(op.err)
	}
	return len(b), nil
}

func (c *UDPConn) WriteTo(b []byte, addr net.Addr) (int, error) {
	ua, ok := addr.(*net.UDPAddr)
	if !ok {
		return 0, errors.New("simnet: WriteTo needs *UDPAddr")
	}
	return c.WriteToUDP(b, ua)
}

type closeUDPOp struct {
	s   *UDPSock
	err error
}

func (o *closeUDPOp) Ready() bool { return true }
func (o *closeUDPOp) Do() {
	if o.s.closed {
		o.err = &net.OpError{Op: "close", Net: "udp", Err: net.ErrClosed}
		return
	}
	o.s.Close()
	o.s.n.event("udp-close", o.s.Local.String(), "", 0, "")
}
func (o *closeUDPOp) OpName() string { return "close-udp" }

//go:norace
func (c *UDPConn) Close() error {
	op := &closeUDPOp{s: c.s}
	simrt.Trap(op, true)
	return cloneErr(op.err)
}

//go:norace
func (c *UDPConn) LocalAddr() net.Addr {
	l := c.s.Local
	return &net.UDPAddr{IP: cloneIP(l.IP), Port: l.Port}
}

//go:norace
func (c *UDPConn) RemoteAddr() net.Addr {
	if r := c.s.Connected; r != nil {
		return &net.UDPAddr{IP: cloneIP(r.IP), Port: r.Port}
	}
	return nil
}

// Write sends to the connected peer (sockets made with DialUDP).
//
//go:norace
func (c *UDPConn) Write(b []byte) (int, error) {
	if c.s.Connected == nil {
		return 0, &net.OpError{Op: "write", Net: "udp", Err: errors.New("destination address required")}
	}
	return c.writeTo(b, c.s.Connected)
}

func (c *UDPConn) Read(b []byte) (int, error) {
	n, _, err := c.ReadFromUDP(b)
	return n, err
}

// deadlines: kernel operations (scheduling points); a deadline that has passed fails the next Write at once and
// wakes a blocked Read at its instant.
type deadlineOp struct {
	closed   func() bool
	set      func()
	netw     string
	err      error
}

func (o *deadlineOp) Ready() bool { return true }
func (o *deadlineOp) Do() {
	if o.closed() {
		o.err = &net.OpError{Op: "set", Net: o.netw, Err: net.ErrClosed}
		return
	}
	o.set()
}
func (o *deadlineOp) OpName() string { return "set-deadline" }

//go:norace
func setDeadline(netw string, closed func() bool, set func()) error {
	op := &deadlineOp{closed: closed, set: set, netw: netw}
	simrt.Trap(op, true)
	return cloneErr(op.err)
}

// armDeadlineWake makes sure a kernel that is letting time pass looks again at the instant dl.
func armDeadlineWake(n *Net, dl time.Time) {
	if dl.IsZero() {
		return
	}
	if d := time.Until(dl); d > 0 {
		k := n.K
		time.AfterFunc(d, k.Poke)
	}
}

func (c *UDPConn) SetDeadline(t time.Time) error {
	s := c.s
	return setDeadline("udp", func() bool { return s.closed }, func() { s.rdl, s.wdl = t, t })
}
func (c *UDPConn) SetReadDeadline(t time.Time) error {
	s := c.s
	return setDeadline("udp", func() bool { return s.closed }, func() { s.rdl = t })
}
func (c *UDPConn) SetWriteDeadline(t time.Time) error {
	s := c.s
	return setDeadline("udp", func() bool { return s.closed }, func() { s.wdl = t })
}
func (c *UDPConn) SetReadBuffer(int) error            { return nil }
func (c *UDPConn) SetWriteBuffer(int) error           { return nil }

// ---- DNS ----

type Answer struct {
	IPs  []string
	Fail bool
}

type DNS struct {
	n      *Net
	Static map[string][]string
	Script map[string][]Answer // per name, consumed one per lookup (or one per Period); the last one repeats
	Period time.Duration       // >0: script entry k answers the lookups made around simulated time k*Period
	pos    map[string]int
	Lookups int
	Log    []string
}

func (d *DNS) lookup(host string) ([]net.IP, error) {
	d.Lookups++
	if ip := net.ParseIP(host); ip != nil {
		return []net.IP{ip}, nil
	}
	var ans Answer
	if sc, ok := d.Script[host]; ok && len(sc) > 0 {
		i := d.pos[host]
		if d.Period > 0 {
			// the answer is a function of simulated time: lookups at the same instant agree
			i = int((d.n.K.Elapsed() + d.Period/2) / d.Period)
		}
		if i >= len(sc) {
			i = len(sc) - 1
		}
		d.pos[host]++
		ans = sc[i]
	} else if ips, ok := d.Static[host]; ok {
		ans = Answer{IPs: ips}
	} else {
		ans = Answer{Fail: true}
	}
	d.n.event("dns", host, fmt.Sprint(ans.IPs), 0, fmt.Sprint("fail=", ans.Fail))
	if ans.Fail || len(ans.IPs) == 0 {
		if ans.Fail {
			d.n.Fired["dns-failure"]++
		}
		return nil, &net.DNSError{Err: "no such host", Name: host, IsNotFound: true}
	}
	var out []net.IP
	for _, s := range ans.IPs {
		out = append(out, net.ParseIP(s))
	}
	return out, nil
}

// ScriptPos tells how many scripted lookups of host have been answered.
func (d *DNS) ScriptPos(host string) int { return d.pos[host] }

type lookupOp struct {
	n    *Net
	host string
	ips  []net.IP
	err  error
}

func (o *lookupOp) Ready() bool    { return true }
func (o *lookupOp) Do()            { o.ips, o.err = o.n.DNS.lookup(o.host) }
func (o *lookupOp) OpName() string { return "dns-lookup" }

//go:norace
func LookupIP(host string) ([]net.IP, error) {
	n := N
	if n == nil {
		return nil, errors.New("simnet: no world")
	}
	if ip := net.ParseIP(host); ip != nil {
		return []net.IP{ip}, nil
	}
	op := &lookupOp{n: n, host: host}
	simrt.Trap(op, true)
	if op.err != nil {
		return nil, cloneErr(op.err)
	}
	out := make([]net.IP, len(op.ips))
	for i := 0; i < len(op.ips); i++ {
		out[i] = cloneIP(op.ips[i])
	}
	return out, nil
}

func LookupHost(host string) ([]string, error) {
	ips, err := LookupIP(host)
	if err != nil {
		return nil, err
	}
	var out []string
	for _, ip := range ips {
		out = append(out, ip.String())
	}
	return out, nil
}

func resolveHostPort(network, address string) (net.IP, int, error) {
	host, ps, err := net.SplitHostPort(address)
	if err != nil {
		return nil, 0, err
	}
	port, err := strconv.Atoi(ps)
	if err != nil || port < 0 || port > 65535 {
		return nil, 0, &net.AddrError{Err: "invalid port", Addr: ps}
	}
	if host == "" {
		return nil, port, nil
	}
	if ip := net.ParseIP(host); ip != nil {
		return ip, port, nil
	}
	ips, err := LookupIP(host)
	if err != nil {
		return nil, 0, err
	}
	return ips[0], port, nil
}

func ResolveUDPAddr(network, address string) (*net.UDPAddr, error) {
	ip, port, err := resolveHostPort(network, address)
	if err != nil {
		return nil, err
	}
	return &net.UDPAddr{IP: ip, Port: port}, nil
}

func ResolveTCPAddr(network, address string) (*net.TCPAddr, error) {
	ip, port, err := resolveHostPort(network, address)
	if err != nil {
		return nil, err
	}
	return &net.TCPAddr{IP: ip, Port: port}, nil
}

var _ = io.EOF
