package simnet

import (
	"errors"
	"fmt"
	"io"
	"net"
	"os"
	"strconv"
	"syscall"
	"time"
	"unsafe"

	"verif/sim/simrt"
)

type TCPListener struct {
	n        *Net
	Local    *net.TCPAddr
	Proxy    bool
	pending  []*TCPEnd
	closed   bool
	OnAccept func(end *TCPEnd) // actor listeners
	Accepted int
}

// WriteFault makes the Nth write (0-based) of an end accept only Accept bytes
// and then fail; the connection is reset.
type WriteFault struct {
	Nth    int
	Accept int
}

// TCPEnd is one end of a simulated connection.
type TCPEnd struct {
	ID     int
	n      *Net
	Peer   *TCPEnd
	Local  *net.TCPAddr
	Remote *net.TCPAddr
	Proxy  bool // this end is held by the program
	Dialer bool // this end initiated the connection

	rbuf     []byte
	eof      bool // peer's FIN has arrived
	reset    bool
	closed   bool // closed locally
	held     bool // accepted by the program (it holds a descriptor for it until it closes it)
	wclosed  bool // write side shut down locally (half-close): the peer sees end of stream, this end still reads
	rdl, wdl time.Time
	lastArr  time.Time
	Writes   int
	Written  []byte // every byte accepted from this end's writer, in order
	Reads    int
	Faults   []WriteFault
	LostWritten int // bytes accepted from this end's writer after the peer had closed (answered with RST: never delivered)

	// flow control: an actor end that does not read for a while (Stall). Until it reads again it takes `window` bytes
	// (its receive buffer plus the sender's send buffer); a write of the program that does not fit blocks for the rest.
	stalledUntil time.Time
	window       int
	unread       int
	WriteErr int // number of failed writes on this end
	FirstFail int // index of the first failed write (-1: none)

	OnData  func(b []byte) // actor end: bytes arrived
	OnClose func()         // actor end: peer closed or reset
	Tag     string
}

func (e *TCPEnd) Closed() bool     { return e.closed }
func (e *TCPEnd) IsReset() bool    { return e.reset }
func (e *TCPEnd) PeerClosed() bool { return e.eof }
func (e *TCPEnd) Buffered() int    { return len(e.rbuf) }

func (n *Net) tcpInUse(ip net.IP, port int) bool {
	_, ok := n.listeners[udpKey(ip, port)]
	return ok
}

func (n *Net) listenTCP(laddr *net.TCPAddr, proxy bool) (*TCPListener, error) {
	ip := laddr.IP
	if ip != nil && ip.IsUnspecified() {
		ip = nil
	}
	port := laddr.Port
	if port == 0 {
		port = n.ephemeral("tcpl/"+ip.String(), func(p int) bool { return n.tcpInUse(ip, p) })
	} else if n.tcpInUse(ip, port) {
		return nil, &net.OpError{Op: "listen", Net: "tcp", Addr: laddr, Err: errors.New("bind: address already in use")}
	}
	l := &TCPListener{n: n, Local: &net.TCPAddr{IP: ip, Port: port}, Proxy: proxy}
	n.listeners[udpKey(ip, port)] = l
	n.event("tcp-listen", l.Local.String(), "", 0, fmt.Sprint("proxy=", proxy))
	return l, nil
}

// ActorListen creates a listener owned by a simulated party.
func (n *Net) ActorListen(ip string, port int, onAccept func(end *TCPEnd)) *TCPListener {
	l, err := n.listenTCP(&net.TCPAddr{IP: net.ParseIP(ip), Port: port}, false)
	if err != nil {
		panic(err)
	}
	l.OnAccept = onAccept
	return l
}

// CloseListener makes the address refuse connections from now on.
func (l *TCPListener) CloseActor() {
	l.closed = true
	delete(l.n.listeners, udpKey(l.Local.IP, l.Local.Port))
}

func (n *Net) findListener(dst *net.TCPAddr) *TCPListener {
	if l, ok := n.listeners[udpKey(dst.IP, dst.Port)]; ok {
		return l
	}
	if l, ok := n.listeners[udpKey(nil, dst.Port)]; ok && n.isLocal(dst.IP) {
		return l
	}
	return nil
}

func (n *Net) connect(src *net.TCPAddr, dst *net.TCPAddr, dialerProxy bool) (*TCPEnd, error) {
	l := n.findListener(dst)
	if l == nil || l.closed {
		n.event("tcp-refused", src.String(), dst.String(), 0, "")
		return nil, &net.OpError{Op: "dial", Net: "tcp", Addr: dst, Err: syscall.ECONNREFUSED}
	}
	id := len(n.Conns)/2 + 1
	a := &TCPEnd{ID: id, n: n, Local: src, Remote: dst, Proxy: dialerProxy, Dialer: true, FirstFail: -1}
	b := &TCPEnd{ID: id, n: n, Local: &net.TCPAddr{IP: dst.IP, Port: dst.Port}, Remote: src, Proxy: l.Proxy, FirstFail: -1}
	a.Peer, b.Peer = b, a
	n.Conns = append(n.Conns, a, b)
	n.event("tcp-connect", src.String(), dst.String(), id, "")
	l.Accepted++
	if l.Proxy {
		l.pending = append(l.pending, b)
	} else if l.OnAccept != nil {
		l.OnAccept(b)
	}
	return a, nil
}

func (n *Net) pickLocal(ip net.IP, port int) *net.TCPAddr {
	if ip == nil || ip.IsUnspecified() {
		ip = net.ParseIP(n.DefaultIP)
	}
	if port == 0 {
		port = n.ephemeral("tcpc/"+ip.String(), func(p int) bool { return false })
	}
	return &net.TCPAddr{IP: ip, Port: port}
}

// ActorDial connects a simulated party to a listener (kernel context).
func (n *Net) ActorDial(srcIP string, srcPort int, dst string) (*TCPEnd, error) {
	ip, port, err := resolveLiteral(dst)
	if err != nil {
		return nil, err
	}
	return n.connect(n.pickLocal(net.ParseIP(srcIP), srcPort), &net.TCPAddr{IP: ip, Port: port}, false)
}

func resolveLiteral(address string) (net.IP, int, error) {
	host, ps, err := net.SplitHostPort(address)
	if err != nil {
		return nil, 0, err
	}
	port, err := strconv.Atoi(ps)
	if err != nil {
		return nil, 0, err
	}
	ip := net.ParseIP(host)
	if ip == nil {
		return nil, 0, fmt.Errorf("simnet: %q is not an IP literal", host)
	}
	return ip, port, nil
}

// deliver schedules the arrival of data (cut into segments) at the peer.
func (e *TCPEnd) deliver(data []byte) {
	n := e.n
	if len(data) == 0 {
		return
	}
	var cuts []int
	if len(data) > 1 && pct(n.K, n.F.SegPct) {
		segs := 2 + n.K.Draw(n.F.MaxSegs-1)
		for i := 1; i < segs; i++ {
			cuts = append(cuts, 1+n.K.Draw(len(data)-1))
		}
		sortInts(cuts)
		n.Fired["tcp-segmented"]++
	}
	e.DeliverCuts(data, cuts)
}

func sortInts(a []int) {
	for i := 1; i < len(a); i++ {
		for j := i; j > 0 && a[j] < a[j-1]; j-- {
			a[j], a[j-1] = a[j-1], a[j]
		}
	}
}

// DeliverCuts sends data to the peer cut at the given offsets.
func (e *TCPEnd) DeliverCuts(data []byte, cuts []int) {
	n := e.n
	prev := 0
	cuts = append(append([]int{}, cuts...), len(data))
	for _, c := range cuts {
		if c <= prev || c > len(data) {
			continue
		}
		seg := data[prev:c]
		prev = c
		e.arriveAfter(n.latency(), func(p *TCPEnd) {
			if p.closed || p.reset {
				return
			}
			if p.Proxy {
				p.rbuf = append(p.rbuf, seg...)
				n.event("tcp-arrive", e.Local.String(), p.Local.String(), e.ID, strconv.Itoa(len(seg)))
			} else if p.OnData != nil {
				p.OnData(seg)
			}
		})
	}
}

// WriteCutsGap sends bytes from an actor end cut at the given offsets with a pause of gap between consecutive
// segments (a slow or stalling sender): segment i arrives about i*gap after the first.
func (e *TCPEnd) WriteCutsGap(data []byte, cuts []int, gap time.Duration) {
	if e.closed || e.reset || e.wclosed {
		return
	}
	e.Writes++
	e.Written = append(e.Written, data...)
	n := e.n
	prev := 0
	var at time.Duration
	for _, c := range append(append([]int{}, cuts...), len(data)) {
		if c <= prev || c > len(data) {
			continue
		}
		seg := data[prev:c]
		prev = c
		e.arriveAfter(at+n.latency(), func(p *TCPEnd) {
			if p.closed || p.reset {
				return
			}
			if p.Proxy {
				p.rbuf = append(p.rbuf, seg...)
				n.event("tcp-arrive", e.Local.String(), p.Local.String(), e.ID, strconv.Itoa(len(seg)))
			} else if p.OnData != nil {
				p.OnData(seg)
			}
		})
		at += gap
	}
	if gap > 0 {
		n.Fired["tcp-slow-sender"]++
	}
}

// WriteCutsAndClose sends data cut at the given offsets and closes this end so that the end of stream reaches the peer
// in the same instant as the last segment (FIN on the last data packet): the peer's reader finds the bytes and, on its
// very next read, the end of stream - before anybody else had simulated time to run.
func (e *TCPEnd) WriteCutsAndClose(data []byte, cuts []int) {
	if e.closed || e.reset || e.wclosed {
		return
	}
	e.Writes++
	e.Written = append(e.Written, data...)
	n := e.n
	prev := 0
	all := append(append([]int{}, cuts...), len(data))
	for i, c := range all {
		if c <= prev || c > len(data) {
			continue
		}
		seg := data[prev:c]
		prev = c
		last := i == len(all)-1
		e.arriveAfter(n.latency(), func(p *TCPEnd) {
			if p.closed || p.reset {
				return
			}
			if p.Proxy {
				p.rbuf = append(p.rbuf, seg...)
				n.event("tcp-arrive", e.Local.String(), p.Local.String(), e.ID, strconv.Itoa(len(seg)))
			} else if p.OnData != nil {
				p.OnData(seg)
			}
			if last {
				p.eof = true
			}
		})
	}
	e.closed = true
	n.Fired["tcp-fin-with-last-segment"]++
	n.event("tcp-close", e.Local.String(), e.Remote.String(), e.ID, "with the last segment")
}

// arriveAfter schedules fn at the peer no earlier than anything scheduled before.
func (e *TCPEnd) arriveAfter(lat time.Duration, fn func(p *TCPEnd)) {
	k := e.n.K
	at := k.Now().Add(lat)
	if !at.After(e.lastArr) {
		// a byte stream: segments of one direction arrive strictly in order
		at = e.lastArr.Add(time.Nanosecond)
	}
	e.lastArr = at
	p := e.Peer
	k.After(at.Sub(k.Now()), fmt.Sprintf("tcp-seg conn=%d", e.ID), func() { fn(p) })
}

func (e *TCPEnd) doClose() {
	if e.closed {
		return
	}
	e.closed = true
	e.n.event("tcp-close", e.Local.String(), e.Remote.String(), e.ID, fmt.Sprint("proxy=", e.Proxy))
	e.arriveAfter(e.n.latency(), func(p *TCPEnd) {
		p.eof = true
		if !p.Proxy && p.OnClose != nil && !p.closed {
			p.OnClose()
		}
	})
}

// doCloseWrite: half-close. The peer reads end of stream after lat; this end keeps reading.
func (e *TCPEnd) doCloseWrite(lat time.Duration) {
	if e.closed || e.wclosed {
		return
	}
	e.wclosed = true
	e.n.Fired["tcp-half-close"]++
	e.n.event("tcp-shutdown-write", e.Local.String(), e.Remote.String(), e.ID, fmt.Sprint("proxy=", e.Proxy))
	e.arriveAfter(lat, func(p *TCPEnd) {
		p.eof = true
	})
}

func (e *TCPEnd) doReset() {
	e.reset = true
	p := e.Peer
	if !p.reset {
		p.reset = true
		if !p.Proxy && p.OnClose != nil && !p.closed {
			p.OnClose()
		}
	}
}

// ---- actor-side API (kernel context) ----

// Write sends bytes from an actor end subject to the world's segmentation faults.
func (e *TCPEnd) Write(data []byte) {
	if e.closed || e.reset || e.wclosed {
		return
	}
	e.Writes++
	e.Written = append(e.Written, data...)
	e.deliver(data)
}

// WriteCuts sends bytes from an actor end cut exactly at the given offsets.
func (e *TCPEnd) WriteCuts(data []byte, cuts []int) {
	if e.closed || e.reset {
		return
	}
	e.Writes++
	e.Written = append(e.Written, data...)
	e.DeliverCuts(data, cuts)
}

// WriteExact sends bytes as one segment arriving after exactly lat (no
// fault draw): lets the harness make several arrivals simultaneous.
func (e *TCPEnd) WriteExact(data []byte, lat time.Duration) {
	if e.closed || e.reset || len(data) == 0 {
		return
	}
	e.Writes++
	e.Written = append(e.Written, data...)
	n := e.n
	seg := data
	e.arriveAfter(lat, func(p *TCPEnd) {
		if p.closed || p.reset {
			return
		}
		if p.Proxy {
			p.rbuf = append(p.rbuf, seg...)
			n.event("tcp-arrive", e.Local.String(), p.Local.String(), e.ID, strconv.Itoa(len(seg)))
		} else if p.OnData != nil {
			p.OnData(seg)
		}
	})
}

func (e *TCPEnd) Close() { e.doClose() }

// CloseWrite half-closes an actor end (it keeps receiving); CloseWriteExact makes the end of stream arrive after exactly lat.
func (e *TCPEnd) CloseWrite()                        { e.doCloseWrite(e.n.latency()) }
func (e *TCPEnd) CloseWriteExact(lat time.Duration) { e.doCloseWrite(lat) }
func (e *TCPEnd) WriteClosed() bool                  { return e.wclosed }

// Reset aborts the connection: both ends see errors from now on.
func (e *TCPEnd) Reset() {
	e.n.Fired["tcp-reset"]++
	e.n.event("tcp-reset", e.Local.String(), e.Remote.String(), e.ID, "")
	e.doReset()
}

// ---- program-side API ----

type TCPConn struct{ e *TCPEnd }

// End exposes the kernel object (harness use).
func (c *TCPConn) End() *TCPEnd { return c.e }

type listenOp struct {
	n     *Net
	laddr *net.TCPAddr
	l     *TCPListener
	err   error
}

func (o *listenOp) Ready() bool    { return true }
func (o *listenOp) Do()            { o.l, o.err = o.n.listenTCP(o.laddr, true) }
func (o *listenOp) OpName() string { return "listen-tcp" }

type progListener struct{ l *TCPListener }

func Listen(network, address string) (net.Listener, error) {
	n := N
	if n == nil {
		return nil, errors.New("simnet: no world")
	}
	ip, port, err := resolveHostPort(network, address)
	if err != nil {
		return nil, err
	}
	return listenTrap(n, ip, port)
}

//go:norace
func listenTrap(n *Net, ip net.IP, port int) (net.Listener, error) {
	op := &listenOp{n: n, laddr: &net.TCPAddr{IP: cloneIP(ip), Port: port}}
	simrt.Trap(op, true)
	if op.err != nil {
		return nil, cloneErr(op.err)
	}
	return &progListener{l: op.l}, nil
}

type acceptOp struct {
	l   *TCPListener
	e   *TCPEnd
	err error
}

func (o *acceptOp) Ready() bool { return len(o.l.pending) > 0 || o.l.closed }
func (o *acceptOp) Do() {
	if len(o.l.pending) == 0 {
		o.err = &net.OpError{Op: "accept", Net: "tcp", Err: net.ErrClosed}
		return
	}
	if n := o.l.n; n.MaxProxyTCPConns > 0 && n.openProxyTCP() >= n.MaxProxyTCPConns {
		// the process is out of descriptors for connections: accept fails, the connection stays in the backlog
		n.Fired["accept-emfile"]++
		n.event("tcp-accept-error", "", "", 0, "emfile")
		o.err = &net.OpError{Op: "accept", Net: "tcp", Err: syscall.EMFILE}
		return
	}
	o.e = o.l.pending[0]
	o.e.held = true
	o.l.pending = o.l.pending[1:]
	o.l.n.event("tcp-accept", o.e.Remote.String(), o.e.Local.String(), o.e.ID, "")
}

// openProxyTCP counts the connection ends the program holds and has not closed (its descriptors for connections).
func (n *Net) OpenProxyTCP() int { return n.openProxyTCP() }

func (n *Net) openProxyTCP() int {
	c := 0
	for _, e := range n.Conns {
		if e.Proxy && !e.closed && (e.Dialer || e.held) {
			c++
		}
	}
	return c
}
func (o *acceptOp) OpName() string { return "accept" }

//go:norace
func (p *progListener) Accept() (net.Conn, error) {
	op := &acceptOp{l: p.l}
	simrt.Trap(op, true)
	if op.err != nil {
		return nil, cloneErr(op.err)
	}
	return &TCPConn{e: op.e}, nil
}

type closeListenerOp struct{ l *TCPListener }

func (o closeListenerOp) Ready() bool { return true }
func (o closeListenerOp) Do() {
	o.l.closed = true
	delete(o.l.n.listeners, udpKey(o.l.Local.IP, o.l.Local.Port))
}
func (o closeListenerOp) OpName() string { return "close-listener" }

//go:norace
func (p *progListener) Close() error {
	simrt.Trap(closeListenerOp{p.l}, true)
	return nil
}

//go:norace
func (p *progListener) Addr() net.Addr {
	l := p.l.Local
	return &net.TCPAddr{IP: cloneIP(l.IP), Port: l.Port}
}

type dialOp struct {
	n     *Net
	laddr *net.TCPAddr
	raddr *net.TCPAddr
	e     *TCPEnd
	err   error
}

func (o *dialOp) Ready() bool { return true }
func (o *dialOp) Do() {
	n := o.n
	key := o.raddr.String()
	fate := "ok"
	if fs := n.DialFaults[key]; len(fs) > 0 {
		fate = fs[0]
		n.DialFaults[key] = fs[1:]
	}
	var lip net.IP
	lport := 0
	if o.laddr != nil {
		lip, lport = o.laddr.IP, o.laddr.Port
	}
	src := n.pickLocal(lip, lport)
	if fate == "refuse" {
		n.Fired["dial-refused"]++
		n.event("tcp-refused", src.String(), key, 0, "injected")
		o.err = &net.OpError{Op: "dial", Net: "tcp", Addr: o.raddr, Err: syscall.ECONNREFUSED}
		return
	}
	o.e, o.err = n.connect(src, o.raddr, true)
	if o.err != nil {
		return
	}
	if n.OnProxyDial != nil {
		n.OnProxyDial(key, o.e)
	}
	if fate == "reset" {
		n.Fired["dial-accept-then-reset"]++
		n.event("tcp-reset", src.String(), key, o.e.ID, "injected after accept")
		o.e.doReset()
	}
}
func (o *dialOp) OpName() string { return "dial" }

//go:norace
func dialTrap(n *Net, laddr, raddr *net.TCPAddr) (*TCPConn, error) {
	op := &dialOp{n: n, raddr: &net.TCPAddr{IP: cloneIP(raddr.IP), Port: raddr.Port}}
	if laddr != nil {
		op.laddr = &net.TCPAddr{IP: cloneIP(laddr.IP), Port: laddr.Port}
	}
	simrt.Trap(op, true)
	if op.err != nil {
		return nil, cloneErr(op.err)
	}
	return &TCPConn{e: op.e}, nil
}

func DialTCP(network string, laddr, raddr *net.TCPAddr) (*TCPConn, error) {
	n := N
	if n == nil {
		return nil, errors.New("simnet: no world")
	}
	if raddr == nil {
		return nil, &net.OpError{Op: "dial", Net: network, Err: errors.New("missing address")}
	}
	return dialTrap(n, laddr, raddr)
}

func Dial(network, address string) (net.Conn, error) {
	n := N
	if n == nil {
		return nil, errors.New("simnet: no world")
	}
	switch network {
	case "tcp", "tcp4", "tcp6":
		ip, port, err := resolveHostPort(network, address)
		if err != nil {
			return nil, err
		}
		c, err := dialTrap(n, nil, &net.TCPAddr{IP: ip, Port: port})
		if err != nil {
			return nil, err
		}
		return c, nil
	}
	switch network {
	case "udp", "udp4", "udp6":
		ip, port, err := resolveHostPort(network, address)
		if err != nil {
			return nil, err
		}
		return DialUDP(network, nil, &net.UDPAddr{IP: ip, Port: port})
	}
	return nil, fmt.Errorf("simnet: Dial network %q not simulated", network)
}

func DialTimeout(network, address string, d time.Duration) (net.Conn, error) {
	return Dial(network, address)
}

type readOp struct {
	e    *TCPEnd
	max  int
	data []byte
	err  error
}

func (o *readOp) Ready() bool {
	e := o.e
	return len(e.rbuf) > 0 || e.eof || e.reset || e.closed || (!e.rdl.IsZero() && !time.Now().Before(e.rdl))
}
func (o *readOp) Do() {
	e := o.e
	n := e.n
	e.Reads++
	if e.closed {
		o.err = &net.OpError{Op: "read", Net: "tcp", Err: net.ErrClosed}
		return
	}
	if len(e.rbuf) > 0 {
		m := len(e.rbuf)
		if m > o.max {
			m = o.max
		}
		if m > 1 && pct(n.K, n.F.ShortReadPct) {
			m = 1 + n.K.Draw(m)
			n.Fired["tcp-short-read"]++
		}
		o.data = e.rbuf[:m:m]
		e.rbuf = e.rbuf[m:]
		return
	}
	if e.reset {
		o.err = &net.OpError{Op: "read", Net: "tcp", Err: syscall.ECONNRESET}
		return
	}
	if !e.eof {
		o.err = &net.OpError{Op: "read", Net: "tcp", Err: os.ErrDeadlineExceeded}
		n.Fired["read-deadline-expired"]++
		return
	}
	o.err = io.EOF
}
func (o *readOp) OpName() string { return "read-tcp" }

//go:norace
func (c *TCPConn) Read(b []byte) (int, error) {
	armDeadlineWake(c.e.n, c.e.rdl)
	if len(b) == 0 {
		return 0, nil
	}
	op := &readOp{e: c.e, max: len(b)}
	simrt.Trap(op, true)
	if op.err != nil {
		return 0, cloneErr(op.err)
	}
	m := copyInto(b, op.data)
	if m > 0 {
		simrt.RaceWriteRange(unsafe.Pointer(&b[0]), m)
	}
	return m, nil
}

type writeOp struct {
	e    *TCPEnd
	src  []byte // the caller's buffer
	data []byte // its content when the write is performed
	g    string
	n    int
	err  error
	rest []byte    // what a stalled peer's window did not take yet: the write blocks for it
	em   *Emission // this write's emission (grows as the rest is accepted)
}

func (o *writeOp) Ready() bool { return true }
func (o *writeOp) Do() {
	e := o.e
	n := e.n
	o.data = cloneBytes(o.src)
	idx := e.Writes
	e.Writes++
	em := &Emission{Seq: len(n.Emissions), Step: n.K.Step, At: n.K.Elapsed(), Proto: "tcp",
		Src: e.Local.String(), Dst: e.Remote.String(), ConnID: e.ID, G: o.g}
	n.Emissions = append(n.Emissions, em)
	fail := func(err error, what string) {
		o.err = &net.OpError{Op: "write", Net: "tcp", Err: err}
		em.Err = what
		e.WriteErr++
		if e.FirstFail < 0 {
			e.FirstFail = idx
		}
		n.event("tcp-write-error", e.Local.String(), e.Remote.String(), e.ID, what)
	}
	if e.closed {
		fail(net.ErrClosed, "closed")
		return
	}
	if !e.wdl.IsZero() && !time.Now().Before(e.wdl) {
		// not a failure of the connection: nothing was written, the connection stays usable
		e.Writes--
		o.err = &net.OpError{Op: "write", Net: "tcp", Err: os.ErrDeadlineExceeded}
		em.Err = "write-deadline"
		n.Fired["write-deadline-expired"]++
		n.event("tcp-write-timeout", e.Local.String(), e.Remote.String(), e.ID, "")
		return
	}
	if e.wclosed {
		fail(syscall.EPIPE, "shut-down")
		return
	}
	if e.reset {
		fail(syscall.EPIPE, "reset")
		return
	}
	if e.Peer.closed && e.eof {
		// The peer has closed and its FIN has arrived, but this end has not closed yet (its reader has not acted on the
		// end of stream, or never does). As with a real socket in CLOSE_WAIT the write is accepted - and answered with
		// RST: the bytes are lost, and every later operation on this end fails.
		n.Fired["write-to-closed-peer-accepted-and-lost"]++
		em.Data = o.data
		em.Err = "lost: peer had closed"
		e.Written = append(e.Written, o.data...)
		e.LostWritten += len(o.data)
		n.event("tcp-write-lost", e.Local.String(), e.Remote.String(), e.ID, strconv.Itoa(len(o.data)))
		e.doReset()
		o.n = len(o.data)
		return
	}
	accept := len(o.data)
	for _, f := range e.Faults {
		if f.Nth == idx {
			accept = f.Accept
			if accept > len(o.data) {
				accept = len(o.data)
			}
			n.Fired["write-fault"]++
			em.Data = o.data[:accept]
			e.Written = append(e.Written, o.data[:accept]...)
			e.deliver(o.data[:accept])
			e.doReset()
			o.n = accept
			fail(syscall.ECONNRESET, fmt.Sprintf("fault-after-%d", accept))
			return
		}
	}
	if p := e.Peer; p.stalled() {
		room := p.window - p.unread
		if room < 0 {
			room = 0
		}
		if room < len(o.data) {
			// the stalled peer's window takes only the first `room` bytes now; the caller blocks for the rest
			n.Fired["tcp-write-blocked-by-stalled-peer"]++
			n.event("tcp-write-blocks", e.Local.String(), e.Remote.String(), e.ID, fmt.Sprintf("%d of %d", room, len(o.data)))
			p.unread += room
			em.Data = append([]byte(nil), o.data[:room]...)
			e.Written = append(e.Written, o.data[:room]...)
			n.K.HashBytes(o.data[:room])
			e.deliver(o.data[:room])
			o.n = room
			o.rest = o.data[room:]
			o.em = em
			return
		}
		p.unread += len(o.data)
	}
	em.Data = o.data
	e.Written = append(e.Written, o.data...)
	n.K.HashBytes(o.data)
	if n.K.Cfg.Trace {
		n.K.Tracef("emit tcp conn=%d %s>%s %d bytes", e.ID, em.Src, em.Dst, len(o.data))
	}
	e.deliver(o.data)
	o.n = accept
}
func (o *writeOp) OpName() string { return "write-tcp" }

func (e *TCPEnd) stalled() bool { return !e.stalledUntil.IsZero() && time.Now().Before(e.stalledUntil) }

// Stall: the actor end does not read for d (a peer that is busy, swapped out, or whose application hangs). Until it
// reads again it takes `window` more bytes; writes of the program beyond that block - until the peer reads again, the
// writer's deadline passes (the write then reports how much it wrote, and a timeout), or the connection ends.
func (e *TCPEnd) Stall(d time.Duration, window int) {
	e.stalledUntil = time.Now().Add(d)
	e.window = window
	e.unread = 0
	e.n.Fired["tcp-peer-stalled"]++
	e.n.event("tcp-peer-stalls", e.Local.String(), e.Remote.String(), e.ID, fmt.Sprintf("%v window=%d", d, window))
	e.n.K.After(d, fmt.Sprintf("tcp-peer-reads-again conn=%d", e.ID), func() {
		e.stalledUntil = time.Time{}
		e.unread = 0
	})
}

// writeWaitOp: the blocked remainder of a write.
type writeWaitOp struct{ w *writeOp }

func (o *writeWaitOp) Ready() bool {
	e := o.w.e
	return e.closed || e.reset || !e.Peer.stalled() || (!e.wdl.IsZero() && !time.Now().Before(e.wdl))
}
func (o *writeWaitOp) Do() {
	w := o.w
	e := w.e
	n := e.n
	switch {
	case e.closed:
		w.err = &net.OpError{Op: "write", Net: "tcp", Err: net.ErrClosed}
		w.em.Err = "closed-while-blocked"
	case e.reset:
		w.err = &net.OpError{Op: "write", Net: "tcp", Err: syscall.ECONNRESET}
		w.em.Err = "reset-while-blocked"
	case !e.Peer.stalled():
		// the peer reads again: the rest goes through
		w.em.Data = append(w.em.Data, w.rest...)
		e.Written = append(e.Written, w.rest...)
		n.K.HashBytes(w.rest)
		e.deliver(w.rest)
		w.n += len(w.rest)
		w.rest = nil
		return
	default:
		// the writer's deadline passed: part of the data is on the stream, the connection is still open
		w.err = &net.OpError{Op: "write", Net: "tcp", Err: os.ErrDeadlineExceeded}
		w.em.Err = "write-deadline-after-partial-write"
		n.Fired["write-deadline-after-partial-write"]++
		n.event("tcp-write-timeout", e.Local.String(), e.Remote.String(), e.ID, fmt.Sprintf("after %d bytes", w.n))
	}
	w.rest = nil
}
func (o *writeWaitOp) OpName() string { return "write-tcp-blocked" }

//go:norace
func (c *TCPConn) Write(b []byte) (int, error) {
	g := simrt.Cur()
	name := ""
	if g != nil {
		name = g.Name
	}
	if len(b) > 0 {
		simrt.RaceReadRange(unsafe.Pointer(&b[0]), len(b))
	}
	op := &writeOp{e: c.e, src: b, g: name} // the bytes are taken when the write is performed (see UDPConn.writeTo)
	simrt.Trap(op, true)
	if len(op.rest) > 0 && op.err == nil {
		armDeadlineWake(c.e.n, c.e.wdl)
		simrt.Trap(&writeWaitOp{op}, true)
	}
	return op.n, cloneErr(op.err)
}

type closeOp struct {
	e   *TCPEnd
	err error
}

func (o *closeOp) Ready() bool { return true }
func (o *closeOp) Do() {
	if o.e.closed {
		o.err = &net.OpError{Op: "close", Net: "tcp", Err: net.ErrClosed}
		return
	}
	o.e.doClose()
}
func (o *closeOp) OpName() string { return "close-tcp" }

//go:norace
func (c *TCPConn) Close() error {
	op := &closeOp{e: c.e}
	simrt.Trap(op, true)
	return cloneErr(op.err)
}

//go:norace
func (c *TCPConn) LocalAddr() net.Addr {
	a := c.e.Local
	return &net.TCPAddr{IP: cloneIP(a.IP), Port: a.Port}
}

//go:norace
func (c *TCPConn) RemoteAddr() net.Addr {
	a := c.e.Remote
	return &net.TCPAddr{IP: cloneIP(a.IP), Port: a.Port}
}

func (c *TCPConn) SetDeadline(t time.Time) error {
	e := c.e
	return setDeadline("tcp", func() bool { return e.closed }, func() { e.rdl, e.wdl = t, t })
}
func (c *TCPConn) SetReadDeadline(t time.Time) error {
	e := c.e
	return setDeadline("tcp", func() bool { return e.closed }, func() { e.rdl = t })
}
func (c *TCPConn) SetWriteDeadline(t time.Time) error {
	e := c.e
	return setDeadline("tcp", func() bool { return e.closed }, func() { e.wdl = t })
}
func (c *TCPConn) SetKeepAlive(bool) error                { return nil }
func (c *TCPConn) SetKeepAlivePeriod(time.Duration) error { return nil }
func (c *TCPConn) SetNoDelay(bool) error                  { return nil }
func (c *TCPConn) SetLinger(int) error                    { return nil }
func (c *TCPConn) SetReadBuffer(int) error                { return nil }
func (c *TCPConn) SetWriteBuffer(int) error               { return nil }

type shutOp struct {
	e   *TCPEnd
	err error
}

func (o *shutOp) Ready() bool { return true }
func (o *shutOp) Do() {
	if o.e.closed {
		o.err = &net.OpError{Op: "close", Net: "tcp", Err: net.ErrClosed}
		return
	}
	o.e.doCloseWrite(o.e.n.latency())
}
func (o *shutOp) OpName() string { return "shutdown-write" }

//go:norace
func (c *TCPConn) CloseWrite() error {
	op := &shutOp{e: c.e}
	simrt.Trap(op, true)
	return cloneErr(op.err)
}

// Dialer: the subset of net.Dialer a small program uses. Timeouts never expire (simulated connects are immediate).
type Dialer struct {
	Timeout   time.Duration
	Deadline  time.Time
	LocalAddr net.Addr
	KeepAlive time.Duration
}

func (d *Dialer) Dial(network, address string) (net.Conn, error) {
	if la, ok := d.LocalAddr.(*net.TCPAddr); ok && la != nil {
		switch network {
		case "tcp", "tcp4", "tcp6":
			ip, port, err := resolveHostPort(network, address)
			if err != nil {
				return nil, err
			}
			return DialTCP(network, la, &net.TCPAddr{IP: ip, Port: port})
		}
	}
	return Dial(network, address)
}

// ProxyEnds lists connection ends held by the program.
func (n *Net) ProxyEnds() []*TCPEnd {
	var out []*TCPEnd
	for _, e := range n.Conns {
		if e.Proxy {
			out = append(out, e)
		}
	}
	return out
}

// ConnByID returns the (dialer, acceptor) ends of a connection.
func (n *Net) ConnByID(id int) (*TCPEnd, *TCPEnd) {
	i := (id - 1) * 2
	if i < 0 || i+1 >= len(n.Conns) {
		return nil, nil
	}
	return n.Conns[i], n.Conns[i+1]
}
