package simrt

import (
	"fmt"
	"reflect"
	"runtime"
	"sort"
	"time"
)

// ---- go statements ----

type goOp struct {
	k *Kernel
	g *G
}

func (goOp) Ready() bool    { return true }
func (o goOp) Do()          { o.k.startG(o.g, false) }
func (goOp) OpName() string { return "go" }

// Go starts fn as a simulated goroutine (rewritten `go` statement).
//
//go:norace
func Go(name string, fn func()) {
	k := K
	if k == nil {
		// package init or code outside a world: nothing runs
		Orphans++
		return
	}
	if k.killed {
		return
	}
	child := &G{fn: fn, Name: name}
	raceRelease(&child.token)
	Trap(goOp{k, child}, false)
}


// ---- channel operations: the real channel is kept; yield before, park after ----

func Send[T any](ch chan<- T, v T) {
	k, g, quit := PreReal(RealSend)
	if k == nil {
		ch <- v
		return
	}
	select {
	case ch <- v:
	case <-quit:
		runtime.Goexit()
	}
	PostReal(k, g)
}

func Recv[T any](ch <-chan T) T {
	busy()
	k, g, quit := PreReal(RealRecv)
	if k == nil {
		return <-ch
	}
	var v T
	select {
	case v = <-ch:
	case <-quit:
		runtime.Goexit()
	}
	PostReal(k, g)
	return v
}

func Recv2[T any](ch <-chan T) (T, bool) {
	busy()
	k, g, quit := PreReal(RealRecv)
	if k == nil {
		v, ok := <-ch
		return v, ok
	}
	var v T
	var ok bool
	select {
	case v, ok = <-ch:
	case <-quit:
		runtime.Goexit()
	}
	PostReal(k, g)
	return v, ok
}

// ---- a slow node ----

// In a world with Config.RecvCost > 0 every channel receive of the program is
// preceded by that much simulated time of being busy: the goroutines that
// consume queues (message loop, datagram parser) are slower than the network
// that fills them, so queues build up and arrivals at different instants
// overlap - without the knob the program is infinitely fast and only
// simultaneous arrivals do. Being busy is a kernel event, not a timer of the
// program: the world is not quiescent while somebody is busy.

type busyStartOp struct {
	k  *Kernel
	d  time.Duration
	at time.Time
}

func (o *busyStartOp) Ready() bool { return true }
func (o *busyStartOp) Do() {
	o.at = time.Now().Add(o.d)
	o.k.After(o.d, "busy", func() {})
}
func (*busyStartOp) OpName() string { return "busy-start" }

type busyWaitOp struct{ at time.Time }

func (o busyWaitOp) Ready() bool    { return !time.Now().Before(o.at) }
func (o busyWaitOp) Do()            {}
func (o busyWaitOp) OpName() string { return "busy" }

//go:norace
func busy() {
	k := K
	if k == nil || k.killed || k.Cfg.RecvCost <= 0 {
		return
	}
	g := Cur()
	if g == nil {
		return
	}
	op := &busyStartOp{k: k, d: k.Cfg.RecvCost}
	trapG(k, g, op, false)
	if k.killed {
		return
	}
	trapG(k, g, busyWaitOp{op.at}, true)
}

// ---- select ----

// Case is one communication clause of a rewritten select.
type Case interface {
	isRecv() bool
	try() bool
	rcase() reflect.SelectCase
	done(recv reflect.Value, ok bool)
}

type RCase[T any] struct {
	ch <-chan T
	V  T
	Ok bool
}

func RecvCase[T any](ch <-chan T) *RCase[T] { return &RCase[T]{ch: ch} }

func (c *RCase[T]) isRecv() bool { return true }

func (c *RCase[T]) try() bool {
	if c.ch == nil {
		return false
	}
	select {
	case v, ok := <-c.ch:
		c.V, c.Ok = v, ok
		return true
	default:
		return false
	}
}
func (c *RCase[T]) rcase() reflect.SelectCase {
	return reflect.SelectCase{Dir: reflect.SelectRecv, Chan: reflect.ValueOf(c.ch)}
}
func (c *RCase[T]) done(recv reflect.Value, ok bool) {
	c.Ok = ok
	if recv.IsValid() {
		reflect.ValueOf(&c.V).Elem().Set(recv)
	}
}

type SCase[T any] struct {
	ch chan<- T
	v  T
}

func SendCase[T any](ch chan<- T, v T) *SCase[T] { return &SCase[T]{ch: ch, v: v} }

func (c *SCase[T]) isRecv() bool { return false }

func (c *SCase[T]) try() bool {
	if c.ch == nil {
		return false
	}
	select {
	case c.ch <- c.v:
		return true
	default:
		return false
	}
}
func (c *SCase[T]) rcase() reflect.SelectCase {
	return reflect.SelectCase{Dir: reflect.SelectSend, Chan: reflect.ValueOf(c.ch), Send: reflect.ValueOf(&c.v).Elem()}
}
func (c *SCase[T]) done(reflect.Value, bool) {}

type permOp struct {
	k   *Kernel
	n   int
	out []int
}

func (permOp) Ready() bool { return true }
func (o *permOp) Do() {
	o.out = make([]int, o.n)
	for i := range o.out {
		o.out[i] = i
	}
	for i := o.n - 1; i > 0; i-- {
		j := o.k.Draw(i + 1)
		o.out[i], o.out[j] = o.out[j], o.out[i]
	}
}
func (permOp) OpName() string { return "perm" }

// Select implements a rewritten select statement: the ready cases are probed
// in an order chosen by the kernel; if none is ready (and there is no
// default) the goroutine blocks in a real select over all cases. It returns
// the index of the chosen case, or -1 for default.
func Select(hasDefault bool, cases ...Case) int {
	recvOnly := !hasDefault
	for _, c := range cases {
		if !c.isRecv() {
			recvOnly = false
		}
	}
	if recvOnly {
		busy() // a consumer waiting for work; a select that sends, or only polls, is not one
	}
	k, g, quit := PreReal(RealNone)
	if k == nil {
		return selectNative(nil, nil, hasDefault, cases)
	}
	order := selectOrder(k, g, len(cases))
	for _, i := range order {
		if cases[i].try() {
			return i
		}
	}
	if hasDefault {
		return -1
	}
	setReal(g, RealSelect)
	i := selectNative(k, quit, false, cases)
	PostReal(k, g)
	return i
}

//go:norace
func setReal(g *G, kind int) { g.realOp = kind }

//go:norace
func selectOrder(k *Kernel, g *G, n int) []int {
	if n == 0 {
		return nil
	}
	if n == 1 {
		return []int{0}
	}
	op := &permOp{k: k, n: n}
	trapG(k, g, op, false)
	out := make([]int, n)
	for i := 0; i < n; i++ {
		out[i] = op.out[i]
	}
	return out
}

func selectNative(k *Kernel, quit chan struct{}, hasDefault bool, cases []Case) int {
	rc := make([]reflect.SelectCase, 0, len(cases)+1)
	for _, c := range cases {
		rc = append(rc, c.rcase())
	}
	if k != nil {
		rc = append(rc, reflect.SelectCase{Dir: reflect.SelectRecv, Chan: reflect.ValueOf(quit)})
	} else if hasDefault {
		rc = append(rc, reflect.SelectCase{Dir: reflect.SelectDefault})
	}
	i, v, ok := reflect.Select(rc)
	if i == len(cases) {
		if k != nil {
			runtime.Goexit()
		}
		return -1
	}
	cases[i].done(v, ok)
	return i
}

// ---- sleep ----

func Sleep(d time.Duration) {
	k, g, quit := PreReal(RealSleep)
	if k == nil {
		if K == nil {
			time.Sleep(d)
		}
		return
	}
	if d > 0 {
		t := time.NewTimer(d)
		select {
		case <-t.C:
		case <-quit:
			t.Stop()
			runtime.Goexit()
		}
	}
	PostReal(k, g)
}

// ---- time.AfterFunc ----

type adopted struct {
	seq uint64
	g   *G
}

// AfterFunc is time.AfterFunc for the program (rule R8). The real timer (on
// the bubble's fake clock) only announces that it fired; the kernel then
// starts f as a simulated goroutine at that instant, so the callback is
// scheduled, killed and censused like every goroutine of the program. Stop and
// Reset of the returned timer are the real ones.
//
//go:norace
func AfterFunc(d time.Duration, f func()) *time.Timer {
	k := K
	if k == nil || k.killed {
		Orphans++
		return time.AfterFunc(d, func() {})
	}
	g := Cur()
	if g != nil {
		trapG(k, g, opYield, true)
	}
	k.afSeq++
	seq := k.afSeq
	child := &G{fn: f, Name: "time.AfterFunc"}
	raceRelease(&child.token)
	return time.AfterFunc(d, func() { k.timerFired(seq, child) })
}

// timerFired runs on the runtime's timer goroutine (inside the bubble, no baton).
//
//go:norace
func (k *Kernel) timerFired(seq uint64, child *G) {
	if k.killed {
		return
	}
	raceDisable()
	k.adoptMu.Lock()
	// a timer that is Reset fires again: every firing is a new goroutine
	k.adopt = append(k.adopt, adopted{seq, &G{fn: func() { raceAcquire(&child.token); child.fn() }, Name: child.Name}})
	k.adoptMu.Unlock()
	select {
	case k.timerWake <- struct{}{}:
	default:
	}
	raceEnable()
}

// startAdopted starts the callbacks of the timers that fired since the last
// look, in the order in which the timers were made (kernel context).
func (k *Kernel) startAdopted() {
	k.adoptMu.Lock()
	list := k.adopt
	k.adopt = nil
	k.adoptMu.Unlock()
	if len(list) == 0 {
		return
	}
	sort.SliceStable(list, func(i, j int) bool { return list[i].seq < list[j].seq })
	for _, a := range list {
		k.startG(a.g, false)
	}
}

// ---- map iteration order ----

type keyed[K comparable] struct {
	k K
	s string
}

// MapKeys returns the keys of m in canonical (sorted) order, permuted by the
// kernel when the world perturbs map order.
func MapKeys[K comparable, V any](m map[K]V) []K {
	keys := make([]K, 0, len(m))
	for k := range m {
		keys = append(keys, k)
	}
	if len(keys) > 1 {
		switch ks := interface{}(keys).(type) {
		case []string:
			sort.Strings(ks)
		case []int:
			sort.Ints(ks)
		default:
			tmp := make([]keyed[K], len(keys))
			for i, k := range keys {
				tmp[i] = keyed[K]{k, fmt.Sprintf("%#v", k)}
			}
			sort.Slice(tmp, func(i, j int) bool { return tmp[i].s < tmp[j].s })
			for i := range tmp {
				keys[i] = tmp[i].k
			}
		}
	}
	if perm := mapPerm(len(keys)); perm != nil {
		out := make([]K, len(keys))
		for i, j := range perm {
			out[i] = keys[j]
		}
		keys = out
	}
	return keys
}

// MapOrder is the permutation a world that perturbs map order applies to n
// canonically ordered keys (nil: keep the canonical order).
func MapOrder(n int) []int { return mapPerm(n) }

//go:norace
func mapPerm(n int) []int {
	kk := K
	if kk == nil || kk.killed || !kk.Cfg.MapPerm || n < 2 {
		return nil
	}
	g := Cur()
	if g == nil {
		return nil
	}
	return selectOrder(kk, g, n)
}

// ---- entropy ----

type entropyOp struct {
	k *Kernel
	n int
	b []byte
}

func (entropyOp) Ready() bool { return true }
func (o *entropyOp) Do() {
	o.b = make([]byte, o.n)
	for i := range o.b {
		o.b[i] = byte(o.k.entropy.Uint64())
	}
}
func (entropyOp) OpName() string { return "entropy" }

// Entropy is an io.Reader answered from the world's PRNG (uuid.SetRand).
type Entropy struct{}

//go:norace
func (Entropy) Read(p []byte) (int, error) {
	k := K
	if k == nil || k.killed {
		for i := range p {
			p[i] = byte(i * 37)
		}
		return len(p), nil
	}
	op := &entropyOp{k: k, n: len(p)}
	Trap(op, false)
	for i := 0; i < len(p); i++ {
		p[i] = op.b[i]
	}
	return len(p), nil
}

// ---- Gate: a harness goroutine waits until the kernel (harness, in kernel
// context) opens it; used to let simulated parties act between two steps of a
// scripted goroutine.

type Gate struct{ Open bool }

type gateOp struct{ g *Gate }

func (o gateOp) Ready() bool    { return o.g.Open }
func (o gateOp) Do()            { o.g.Open = false }
func (o gateOp) OpName() string { return "gate" }

// Wait parks the calling simulated goroutine until the gate is opened.
func (g *Gate) Wait() { Trap(gateOp{g}, true) }

// ChanCap is the capacity of a program queue created with make(chan T, n) (rewriting rule R7). Worlds that scale queue
// capacities down (Config.ChanCapDiv > 1) get max(8, n/ChanCapDiv): "queue full" paths are reached with tens of
// messages. 8 is kept as the floor because the program fills some queues before it starts the goroutine that drains
// them (one entry per configured backend at start-up).
func ChanCap(n int) int {
	if K == nil || K.Cfg.ChanCapDiv <= 1 {
		return n
	}
	c := n / K.Cfg.ChanCapDiv
	if c < 8 {
		c = 8
	}
	return c
}

// ---- a plain choice drawn by the kernel on behalf of a goroutine ----

type pickOp struct {
	k   *Kernel
	n   int
	out int
}

func (pickOp) Ready() bool     { return true }
func (o *pickOp) Do()          { o.out = o.k.DrawAux(o.n) }
func (pickOp) OpName() string { return "pick" }

// Pick returns a kernel-drawn value in [0,n) (recorded on the tape); 0 outside
// a world and in kernel context. It is not a scheduling point.
//
//go:norace
func Pick(n int) int {
	k := K
	if k == nil || k.killed || n <= 1 {
		return 0
	}
	g := Cur()
	if g == nil {
		return 0
	}
	op := &pickOp{k: k, n: n}
	trapG(k, g, op, false)
	return op.out
}
