// Package simrt is the kernel of the deterministic simulator: it owns every
// simulated goroutine, decides who runs next from one PRNG (or from a
// recorded tape in replay mode), owns the discrete-event queue and the
// fake clock (testing/synctest), and records a trace hash of every step.
//
// Model: all simulated state is owned by the kernel goroutine (the root
// goroutine of a synctest bubble). Program goroutines are real goroutines,
// but only the one holding the baton executes. Each intercepted operation is
// a trap: the goroutine stores an Op in its record, parks on its private wake
// channel; the kernel later performs the Op on its behalf and hands the baton
// back.
package simrt

import (
	"fmt"
	"runtime"
	"sort"
	"strings"
	"sync"
	"testing"
	"testing/synctest"
	"time"
)

// Op is one trapped operation. Ready and Do run in kernel context.
type Op interface {
	Ready() bool
	Do()
}

// Named lets an Op describe itself for traces and censuses.
type Named interface{ OpName() string }

const (
	gNew     = iota // created, real goroutine parked at its first wake
	gRunning        // holds (or held) the baton / is inside a real blocking op
	gParked         // parked in a trap, op pending
	gExited
)

// real blocking operation a goroutine announced before leaving kernel control
const (
	RealNone = iota
	RealSend
	RealRecv
	RealSelect
	RealSleep
)

var realNames = [...]string{"none", "chan-send", "chan-recv", "select", "sleep"}

type G struct {
	ID      int
	Name    string
	goid    uint64
	wake    chan struct{}
	op      Op
	preempt bool
	state   int
	realOp  int
	fn      func()
	token   byte // race edge parent -> child
	prio    int  // PCT priority
	steps   int
	Panic   interface{}
	Stack   string
	Daemon  bool // harness goroutine (not proxy code)
}

type event struct {
	at   time.Time
	seq  uint64
	name string
	fn   func()
}

type eventHeap []*event

func (h eventHeap) less(i, j int) bool {
	if !h[i].at.Equal(h[j].at) {
		return h[i].at.Before(h[j].at)
	}
	return h[i].seq < h[j].seq
}
func (h *eventHeap) push(e *event) {
	*h = append(*h, e)
	i := len(*h) - 1
	for i > 0 {
		p := (i - 1) / 2
		if !h.less(i, p) {
			break
		}
		(*h)[i], (*h)[p] = (*h)[p], (*h)[i]
		i = p
	}
}
func (h *eventHeap) pop() *event {
	old := *h
	n := len(old)
	e := old[0]
	old[0] = old[n-1]
	*h = old[:n-1]
	i := 0
	for {
		l, r := 2*i+1, 2*i+2
		m := i
		if l < len(*h) && h.less(l, m) {
			m = l
		}
		if r < len(*h) && h.less(r, m) {
			m = r
		}
		if m == i {
			break
		}
		(*h)[i], (*h)[m] = (*h)[m], (*h)[i]
		i = m
	}
	return e
}

// Scheduling strategies.
const (
	SchedRandom   = 0 // uniform random walk over the enabled set
	SchedRunBlock = 1 // keep running the same goroutine with high probability
	SchedPCT      = 2 // priorities with d change points
	SchedStarve   = 3 // never run goroutines whose name matches StarveName while others are enabled (until StarveSteps)
)

type Config struct {
	Seed        uint64
	Tape        []uint32 // replay: choices are read from here instead of the PRNG
	Replay      bool
	Sched       int
	PCTDepth    int
	StarveName  string
	StarveSteps uint64
	MapPerm     bool // permute map iteration order from the PRNG
	// PreemptUnlock: releasing a lock is a scheduling point too (a goroutine that was waiting for the lock may run its
	// critical section before the releaser's next plain statement). Off: the releaser runs on to its next operation.
	PreemptUnlock bool
	RecvCost      time.Duration // > 0: every channel receive of the program costs this much simulated time (a slow node)
	ChanCapDiv    int // > 1: capacities of the program's buffered channels are divided by this (floor 8), see ChanCap
	MaxSteps    uint64
	Trace       bool // keep a textual trace
	Debug       bool // verify goroutine identity at every trap
}

type Kernel struct {
	Cfg      Config
	gs       []*G
	cur      *G // baton holder
	rng      Rand
	schedRng Rand
	auxRng   Rand // choices made on behalf of the program's own nondeterminism (sync.Pool): their number must not shift the environment's draws
	entropy  Rand
	tape     []uint32
	tapePos  int
	events   eventHeap
	evSeq    uint64
	Abandoned bool  // a long time jump over periodic program timers was given up (see Advance)
	afSeq    uint64 // time.AfterFunc timers made so far
	adoptMu  sync.Mutex
	adopt    []adopted // callbacks of timers that fired and are not started yet
	Step     uint64
	Start    time.Time

	timerWake chan struct{}
	quit      chan struct{}
	killed    bool
	inKernel  bool // true while the kernel goroutine (harness, actors, oracles) executes

	TraceHash uint64
	TraceLog  []string
	Failures  []string // infrastructure failures (uncontrolled wake-ups, step limit...)
	Panics    []*G
	Ext       map[string]interface{}
	pctPoints []uint64
	Switches  uint64 // context switches
	Choices   uint64 // choice points with more than one candidate
	Decisions uint64
	SimTime   time.Duration
	StepLimit bool

	cands []cand
}

type cand struct {
	g  *G
	ev *event
}

var kernelSync byte

// K is the kernel of the world currently running in this process.
var K *Kernel

// Orphans counts goroutines the program tried to start outside any world
// (package init).
var Orphans int

// RunWorld runs body as the kernel goroutine of a fresh world inside a
// synctest bubble. body drives the world with Spawn / RunIdle / Advance and
// returns; all simulated goroutines are then torn down.
func RunWorld(t *testing.T, cfg Config, body func(k *Kernel)) (k *Kernel) {
	k = &Kernel{Cfg: cfg, Ext: map[string]interface{}{}}
	k.rng.Seed(cfg.Seed)
	k.schedRng.Seed(cfg.Seed ^ 0x9e3779b97f4a7c15)
	k.auxRng.Seed(cfg.Seed ^ 0x5851f42d4c957f2d)
	k.entropy.Seed(cfg.Seed ^ 0x5851f42d4c957f2d)
	k.tape = nil
	if cfg.Replay {
		k.tape = cfg.Tape
	}
	if k.Cfg.MaxSteps == 0 {
		k.Cfg.MaxSteps = 2000000
	}
	k.TraceHash = 1469598103934665603
	func() {
		defer func() {
			if r := recover(); r != nil {
				s := fmt.Sprint(r)
				if strings.Contains(s, "deadlock") {
					k.Failures = append(k.Failures, "bubble-leak: "+s)
					return
				}
				panic(r)
			}
		}()
		// A failure inside the bubble (the race detector's per-test check) makes
		// synctest.Test call FailNow on the T it was given: run it under a
		// subtest so that only that subtest's goroutine exits.
		t.Run("w", func(st *testing.T) {
			defer func() {
				if r := recover(); r != nil {
					s := fmt.Sprint(r)
					if strings.Contains(s, "deadlock") {
						k.Failures = append(k.Failures, "bubble-leak: "+s)
						return
					}
					panic(r)
				}
			}()
			runBubble(st, k, body)
		})
	}()
	return k
}

func runBubble(t *testing.T, k *Kernel, body func(k *Kernel)) {
	func() {
		synctest.Test(t, func(t *testing.T) {
			k.Start = time.Now()
			k.timerWake = make(chan struct{}, 1)
			k.quit = make(chan struct{})
			K = k
			k.inKernel = true
			defer func() {
				k.SimTime = time.Since(k.Start)
				k.teardown()
				K = nil
			}()
			body(k)
		})
	}()
}

func (k *Kernel) Now() time.Time { return time.Now() }

func (k *Kernel) Elapsed() time.Duration { return time.Since(k.Start) }

// Spawn creates a simulated goroutine from kernel context.
func (k *Kernel) Spawn(name string, daemon bool, fn func()) *G {
	g := &G{Name: name, fn: fn, Daemon: daemon}
	k.startG(g, true)
	return g
}

// inherit=false: the real goroutine is started without a happens-before edge
// from the kernel (the parent's edge is re-created through g.token).
func (k *Kernel) startG(g *G, inherit bool) {
	g.ID = len(k.gs)
	if g.Name == "" {
		g.Name = fmt.Sprintf("g%d", g.ID)
	}
	g.wake = make(chan struct{})
	g.state = gNew
	g.prio = int(k.schedRng.Uint64()>>40) + 1000
	k.gs = append(k.gs, g)
	if inherit {
		go g.run(k)
	} else {
		raceDisable()
		go g.run(k)
		raceEnable()
	}
}

//go:norace
func goid() uint64 {
	var buf [64]byte
	n := runtime.Stack(buf[:], false)
	// "goroutine 123 ["
	var id uint64
	for i := 10; i < n; i++ {
		c := buf[i]
		if c < '0' || c > '9' {
			break
		}
		id = id*10 + uint64(c-'0')
	}
	return id
}

//go:norace
func (g *G) run(k *Kernel) {
	g.goid = goid()
	g.park(k)
	raceAcquire(&g.token)
	defer g.finish(k)
	g.fn()
}

//go:norace
func (g *G) finish(k *Kernel) {
	r := recover()
	if k.killed {
		g.state = gExited
		return
	}
	if r != nil {
		g.Panic = r
		buf := make([]byte, 16384)
		n := runtime.Stack(buf, false)
		g.Stack = string(buf[:n])
	}
	g.state = gExited
	raceRelease(&kernelSync)
}

// park blocks until the kernel hands the baton to g. Invisible to the race
// detector in the kernel->goroutine direction.
//
//go:norace
func (g *G) park(k *Kernel) {
	raceRelease(&kernelSync)
	raceDisable()
	<-g.wake
	raceEnable()
	if k.killed {
		runtime.Goexit()
	}
}

// Cur returns the goroutine record of the caller, which must hold the baton.
//
//go:norace
func Cur() *G {
	k := K
	if k == nil {
		return nil
	}
	if k.inKernel {
		return nil
	}
	g := k.cur
	if k.Cfg.Debug && g != nil {
		if id := goid(); id != g.goid {
			panic(fmt.Sprintf("simrt: trap from goroutine %d but baton holder is %s (goid %d)", id, g.Name, g.goid))
		}
	}
	return g
}

// Trap hands op to the kernel and parks until it has been performed.
// preempt=false: the kernel performs it (when ready) and resumes the same
// goroutine without a scheduling decision.
//
//go:norace
func Trap(op Op, preempt bool) {
	k := K
	if k == nil {
		panic("simrt: trap outside a world")
	}
	if k.killed {
		return
	}
	g := Cur()
	if g == nil {
		panic("simrt: trap from the kernel goroutine or without baton")
	}
	trapG(k, g, op, preempt)
}

//go:norace
func trapG(k *Kernel, g *G, op Op, preempt bool) {
	g.op = op
	g.preempt = preempt
	g.state = gParked
	g.park(k)
}

type nopOp struct{ name string }

func (nopOp) Ready() bool      { return true }
func (nopOp) Do()              {}
func (o nopOp) OpName() string { return o.name }

var (
	opYield    Op = nopOp{"yield"}
	opPostWake Op = nopOp{"postwake"}
)

// PreemptUnlock reports whether this world makes lock releases scheduling points.
func PreemptUnlock() bool { return K != nil && K.Cfg.PreemptUnlock }

// Yield is a pure scheduling point.
func Yield() {
	if K == nil {
		return
	}
	Trap(opYield, true)
}

// PreReal announces that the caller is about to perform a real blocking
// operation (channel, select, sleep) and yields first. It returns the
// caller's record for the matching PostReal.
//
//go:norace
func PreReal(kind int) (*Kernel, *G, chan struct{}) {
	k := K
	if k == nil || k.killed {
		return nil, nil, nil
	}
	g := Cur()
	trapG(k, g, opYield, true)
	g.realOp = kind
	return k, g, k.quit
}

// PostReal is called right after the real operation returned: the goroutine
// may have been woken by a channel hand-off or a timer, outside kernel
// control, so it parks again before executing any program code.
//
//go:norace
func PostReal(k *Kernel, g *G) {
	if k == nil {
		return
	}
	if k.killed {
		runtime.Goexit()
	}
	g.realOp = RealNone
	g.op = opPostWake
	g.preempt = true
	g.state = gParked
	// tell a kernel that is letting time pass that somebody woke up
	select {
	case k.timerWake <- struct{}{}:
	default:
	}
	g.park(k)
}

// Quit returns the channel closed at teardown.
func (k *Kernel) Quit() chan struct{} { return k.quit }

func (k *Kernel) fail(format string, a ...interface{}) {
	k.Failures = append(k.Failures, fmt.Sprintf(format, a...))
}

func opName(op Op) string {
	if n, ok := op.(Named); ok {
		return n.OpName()
	}
	return fmt.Sprintf("%T", op)
}

func (k *Kernel) hash(a, b uint64) {
	h := k.TraceHash
	for i := 0; i < 8; i++ {
		h ^= (a >> (8 * uint(i))) & 0xff
		h *= 1099511628211
	}
	for i := 0; i < 8; i++ {
		h ^= (b >> (8 * uint(i))) & 0xff
		h *= 1099511628211
	}
	k.TraceHash = h
}

// HashBytes mixes observable bytes (emissions) into the trace hash.
func (k *Kernel) HashBytes(b []byte) {
	h := k.TraceHash
	for _, c := range b {
		h ^= uint64(c)
		h *= 1099511628211
	}
	k.TraceHash = h
}

func (k *Kernel) Tracef(format string, a ...interface{}) {
	if k.Cfg.Trace {
		k.TraceLog = append(k.TraceLog, fmt.Sprintf("%d %v ", k.Step, k.Elapsed())+fmt.Sprintf(format, a...))
	}
}

// Draw returns a value in [0,n) from the PRNG (generation) or the tape
// (replay) and records it.
func (k *Kernel) Draw(n int) int {
	if n <= 1 {
		return 0
	}
	var v int
	if k.Cfg.Replay {
		if k.tapePos < len(k.tape) {
			v = int(k.tape[k.tapePos]) % n
		}
		k.tapePos++
		return v
	}
	v = int(k.rng.Uint64() % uint64(n))
	k.tape = append(k.tape, uint32(v))
	return v
}

// DrawAux is Draw from a stream of its own (recorded on the same tape).
func (k *Kernel) DrawAux(n int) int {
	if n <= 1 {
		return 0
	}
	return k.decide(n, func() int { return int(k.auxRng.Uint64() % uint64(n)) })
}

// record a decision made by a strategy (generation) or read it (replay)
func (k *Kernel) decide(n int, pick func() int) int {
	if n <= 1 {
		return 0
	}
	if k.Cfg.Replay {
		v := 0
		if k.tapePos < len(k.tape) {
			v = int(k.tape[k.tapePos]) % n
		}
		k.tapePos++
		return v
	}
	v := pick()
	k.tape = append(k.tape, uint32(v))
	return v
}

// Tape returns the realised choices of this run.
func (k *Kernel) Tape() []uint32 {
	if k.Cfg.Replay {
		return k.Cfg.Tape
	}
	return k.tape
}

// Poke tells a kernel that is letting time pass to look at the world again now
// (used by timers that make a parked operation ready, e.g. an I/O deadline).
func (k *Kernel) Poke() {
	select {
	case k.timerWake <- struct{}{}:
	default:
	}
}

// After schedules fn in kernel context d from now.
func (k *Kernel) After(d time.Duration, name string, fn func()) {
	k.evSeq++
	k.events.push(&event{at: time.Now().Add(d), seq: k.evSeq, name: name, fn: fn})
}

func (k *Kernel) PendingEvents() int { return len(k.events) }

// collect waits for quiescence of the bubble and classifies goroutines.
func (k *Kernel) collect() {
	synctest.Wait()
	raceAcquire(&kernelSync)
	k.inKernel = true
	k.startAdopted()
	for _, g := range k.gs {
		switch g.state {
		case gExited:
			if g.Panic != nil {
				already := false
				for _, p := range k.Panics {
					if p == g {
						already = true
					}
				}
				if !already {
					k.Panics = append(k.Panics, g)
				}
			}
		}
	}
}

// runImmediate completes non-preempting traps of the baton holder.
func (k *Kernel) runImmediate() {
	for {
		g := k.cur
		if g == nil || g.state != gParked || g.preempt || !g.op.Ready() {
			return
		}
		g.op.Do()
		k.resume(g)
		k.collect()
	}
}

func (k *Kernel) resume(g *G) {
	g.state = gRunning
	g.op = nil
	k.cur = g
	g.steps++
	k.inKernel = false
	g.wake <- struct{}{}
}

// StepOnce performs one scheduling step. It returns false when nothing is
// enabled at the current instant.
func (k *Kernel) StepOnce() bool {
	k.collect()
	k.runImmediate()
	if len(k.Panics) > 0 || len(k.Failures) > 0 {
		return false
	}
	if k.Step >= k.Cfg.MaxSteps {
		k.StepLimit = true
		return false
	}
	now := time.Now()
	cands := k.cands[:0]
	for _, g := range k.gs {
		if (g.state == gParked || g.state == gNew) && (g.state == gNew || g.op.Ready()) {
			cands = append(cands, cand{g: g})
		}
	}
	// due events: the earliest one, plus every other event due at this instant
	if len(k.events) > 0 && !k.events[0].at.After(now) {
		// events due now are all candidates; collect them in (time, seq) order
		var due []*event
		for _, e := range k.events {
			if !e.at.After(now) {
				due = append(due, e)
			}
		}
		sort.Slice(due, func(i, j int) bool {
			if !due[i].at.Equal(due[j].at) {
				return due[i].at.Before(due[j].at)
			}
			return due[i].seq < due[j].seq
		})
		for _, e := range due {
			cands = append(cands, cand{ev: e})
		}
	}
	k.cands = cands
	if len(cands) == 0 {
		return false
	}
	idx := k.choose(cands)
	c := cands[idx]
	k.Step++
	k.Decisions++
	if len(cands) > 1 {
		k.Choices++
	}
	if c.g != nil {
		g := c.g
		if k.cur != g {
			k.Switches++
		}
		name := "start"
		if g.state == gParked {
			name = opName(g.op)
			g.op.Do()
		}
		k.hash(k.Step, uint64(g.ID)<<8|1)
		if k.Cfg.Trace {
			k.Tracef("run %s %s (of %d)", g.Name, name, len(cands))
		}
		k.resume(g)
	} else {
		e := c.ev
		k.removeEvent(e)
		k.hash(k.Step, e.seq<<8|2)
		if k.Cfg.Trace {
			k.Tracef("event %s (of %d)", e.name, len(cands))
		}
		k.cur = nil
		e.fn()
	}
	return true
}

func (k *Kernel) removeEvent(e *event) {
	if len(k.events) > 0 && k.events[0] == e {
		k.events.pop()
		return
	}
	// events are few; rebuild the heap without e
	old := k.events
	k.events = k.events[:0:0]
	for _, x := range old {
		if x != e {
			k.events.push(x)
		}
	}
}

func (k *Kernel) choose(cands []cand) int {
	n := len(cands)
	if n == 1 {
		return 0
	}
	return k.decide(n, func() int {
		switch k.Cfg.Sched {
		case SchedRunBlock:
			if k.cur != nil && k.schedRng.Uint64()%8 != 0 {
				for i, c := range cands {
					if c.g == k.cur {
						return i
					}
				}
			}
		case SchedPCT:
			if k.pctPoints == nil {
				d := k.Cfg.PCTDepth
				if d <= 0 {
					d = 1
				}
				k.pctPoints = make([]uint64, d)
				for i := range k.pctPoints {
					k.pctPoints[i] = k.schedRng.Uint64() % 1500
				}
			}
			best := 0
			for i := range cands {
				if prioOf(cands[i]) > prioOf(cands[best]) {
					best = i
				}
			}
			for i, pt := range k.pctPoints {
				if pt == k.Step && cands[best].g != nil {
					cands[best].g.prio = i // drop below everything else
				}
			}
			return best
		case SchedStarve:
			if k.Step < k.Cfg.StarveSteps {
				var ok []int
				for i, c := range cands {
					if c.g != nil && strings.Contains(c.g.Name, k.Cfg.StarveName) {
						continue
					}
					ok = append(ok, i)
				}
				if len(ok) > 0 {
					return ok[int(k.schedRng.Uint64()%uint64(len(ok)))]
				}
			}
		}
		return int(k.schedRng.Uint64() % uint64(n))
	})
}

func prioOf(c cand) int {
	if c.g != nil {
		return c.g.prio
	}
	x := c.ev.seq
	return int(splitmix(&x)>>40) + 1000
}

// RunIdle steps until nothing is enabled at the current instant.
func (k *Kernel) RunIdle() {
	for k.StepOnce() {
	}
}

// Advance lets up to d of simulated time pass, running whatever becomes
// enabled (timers of the program, kernel events) at its exact instant.
func (k *Kernel) Advance(d time.Duration) {
	deadline := time.Now().Add(d)
	step0, t0 := k.Step, time.Now()
	for {
		k.RunIdle()
		if k.stopped() {
			return
		}
		now := time.Now()
		if k.Step-step0 > idleStepBudget && now.Sub(t0) > time.Hour {
			// the program has periodic timers (a ticker, a poll loop) and the world wants to let a long time pass:
			// every tick is a step. Not a livelock - time does pass - but not affordable: the world is abandoned
			// (what it judged so far stands; nothing more is judged), which is no verdict on the program
			k.Abandoned = true
			return
		}
		if !now.Before(deadline) {
			return
		}
		next := deadline
		if len(k.events) > 0 && k.events[0].at.Before(next) {
			next = k.events[0].at
		}
		select {
		case <-k.timerWake:
		default:
		}
		t := time.NewTimer(next.Sub(now))
		select {
		case <-k.timerWake:
			t.Stop()
		case <-t.C:
		}
	}
}

// idleStepBudget: steps one Advance may spend on the program's own timers before the world is abandoned.
const idleStepBudget = 150000

func (k *Kernel) stopped() bool {
	return len(k.Panics) > 0 || len(k.Failures) > 0 || k.StepLimit || k.Abandoned
}

// Settle runs until the world is quiescent: nothing enabled and no kernel
// event pending (program timers do not count). Time advances as needed, at
// most max in total.
func (k *Kernel) Settle(max time.Duration) bool {
	deadline := time.Now().Add(max)
	step0, t0 := k.Step, time.Now()
	for {
		k.RunIdle()
		if k.stopped() {
			return false
		}
		if k.Step-step0 > idleStepBudget && time.Since(t0) > time.Hour {
			k.Abandoned = true // see Advance
			return false
		}
		if len(k.events) == 0 {
			return true
		}
		now := time.Now()
		if !now.Before(deadline) {
			return false
		}
		next := k.events[0].at
		if next.After(deadline) {
			next = deadline
		}
		if !next.After(now) {
			continue
		}
		select {
		case <-k.timerWake:
		default:
		}
		t := time.NewTimer(next.Sub(now))
		select {
		case <-k.timerWake:
			t.Stop()
		case <-t.C:
		}
	}
}

// Busiest returns the name of the goroutine that was scheduled most often and
// its share of all steps (livelock diagnosis when the step limit is hit).
func (k *Kernel) Busiest() (string, float64) {
	var best *G
	total := 0
	for _, g := range k.gs {
		total += g.steps
		if best == nil || g.steps > best.steps {
			best = g
		}
	}
	if best == nil || total == 0 {
		return "", 0
	}
	return best.Name, float64(best.steps) / float64(total)
}

// GInfo describes a goroutine for censuses.
type GInfo struct {
	ID     int
	Name   string
	State  string // "exited", "parked:<op>", "real:<kind>", "running", "new"
	Ready  bool
	Daemon bool
}

func (k *Kernel) Census() []GInfo {
	var out []GInfo
	for _, g := range k.gs {
		gi := GInfo{ID: g.ID, Name: g.Name, Daemon: g.Daemon}
		switch g.state {
		case gExited:
			gi.State = "exited"
		case gNew:
			gi.State = "new"
			gi.Ready = true
		case gParked:
			gi.State = "parked:" + opName(g.op)
			gi.Ready = g.op.Ready()
		case gRunning:
			if g.realOp != RealNone {
				gi.State = "real:" + realNames[g.realOp]
			} else {
				gi.State = "running"
			}
		}
		out = append(out, gi)
	}
	return out
}

func (k *Kernel) teardown() {
	// observe panics of the last step
	k.collect()
	k.killed = true
	close(k.quit)
	for _, g := range k.gs {
		if g.state == gParked || g.state == gNew {
			g.state = gRunning
			select {
			case g.wake <- struct{}{}:
			default:
				// not yet at its park (cannot happen after collect)
			}
		}
	}
	synctest.Wait()
}

// ---- PRNG ----

type Rand struct{ s [4]uint64 }

func splitmix(x *uint64) uint64 {
	*x += 0x9e3779b97f4a7c15
	z := *x
	z = (z ^ (z >> 30)) * 0xbf58476d1ce4e5b9
	z = (z ^ (z >> 27)) * 0x94d049bb133111eb
	return z ^ (z >> 31)
}

func (r *Rand) Seed(seed uint64) {
	x := seed
	for i := range r.s {
		r.s[i] = splitmix(&x)
	}
}

func rotl(x uint64, k uint) uint64 { return (x << k) | (x >> (64 - k)) }

func (r *Rand) Uint64() uint64 {
	s := &r.s
	res := rotl(s[1]*5, 7) * 9
	t := s[1] << 17
	s[2] ^= s[0]
	s[3] ^= s[1]
	s[1] ^= s[2]
	s[0] ^= s[3]
	s[2] ^= t
	s[3] = rotl(s[3], 45)
	return res
}

func (r *Rand) Intn(n int) int {
	if n <= 1 {
		return 0
	}
	return int(r.Uint64() % uint64(n))
}

func (r *Rand) Float() float64 { return float64(r.Uint64()>>11) / (1 << 53) }

// Mix derives a child seed.
func Mix(seed uint64, salt uint64) uint64 {
	x := seed ^ (salt * 0x9e3779b97f4a7c15)
	return splitmix(&x)
}
