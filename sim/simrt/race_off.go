//go:build !race

package simrt

import "unsafe"

const RaceEnabled = false

func raceAcquire(p *byte) {}
func raceRelease(p *byte) {}
func raceDisable()        {}
func raceEnable()         {}

func RaceErrors() int { return 0 }

func RaceAcquire(p unsafe.Pointer) {}
func RaceRelease(p unsafe.Pointer) {}
func RaceReleaseMerge(p unsafe.Pointer) {}

func RaceWriteRange(p unsafe.Pointer, n int) {}
func RaceReadRange(p unsafe.Pointer, n int)  {}
