//go:build race

package simrt

import (
	"runtime"
	"unsafe"
)

const RaceEnabled = true

func raceAcquire(p *byte) { runtime.RaceAcquire(unsafe.Pointer(p)) }
// merge: several goroutines may park (release) between two acquires of the kernel - a parent at its go statement and the
// child at its first park - and a plain release would overwrite the earlier one's clock
func raceRelease(p *byte) { runtime.RaceReleaseMerge(unsafe.Pointer(p)) }
func raceDisable()        { runtime.RaceDisable() }
func raceEnable()         { runtime.RaceEnable() }

// RaceErrors is the number of reports the detector has produced so far.
func RaceErrors() int { return runtime.RaceErrors() }

// RaceAcquire / RaceRelease let the sync shims publish their edges.
func RaceAcquire(p unsafe.Pointer) { runtime.RaceAcquire(p) }
func RaceRelease(p unsafe.Pointer) { runtime.RaceRelease(p) }

// RaceReleaseMerge: a release that keeps the edges of earlier releases on p (several readers unlocking a RWMutex).
func RaceReleaseMerge(p unsafe.Pointer) { runtime.RaceReleaseMerge(p) }

// RaceWriteRange / RaceReadRange mirror what package syscall does for real
// reads and writes: the buffer handed to Read is written, the one handed to
// Write is read, as far as the detector is concerned.
func RaceWriteRange(p unsafe.Pointer, n int) { runtime.RaceWriteRange(p, n) }
func RaceReadRange(p unsafe.Pointer, n int)  { runtime.RaceReadRange(p, n) }
