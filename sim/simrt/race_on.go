//go:build race

package simrt

import (
	"runtime"
	"unsafe"
)

const RaceEnabled = true

func raceAcquire(p *byte) { runtime.RaceAcquire(unsafe.Pointer(p)) }
func raceRelease(p *byte) { runtime.RaceRelease(unsafe.Pointer(p)) }
func raceDisable()        { runtime.RaceDisable() }
func raceEnable()         { runtime.RaceEnable() }

// RaceErrors is the number of reports the detector has produced so far.
func RaceErrors() int { return runtime.RaceErrors() }

// RaceAcquire / RaceRelease let the sync shims publish their edges.
func RaceAcquire(p unsafe.Pointer) { runtime.RaceAcquire(p) }
func RaceRelease(p unsafe.Pointer) { runtime.RaceRelease(p) }

// RaceWriteRange / RaceReadRange mirror what package syscall does for real
// reads and writes: the buffer handed to Read is written, the one handed to
// Write is read, as far as the detector is concerned.
func RaceWriteRange(p unsafe.Pointer, n int) { runtime.RaceWriteRange(p, n) }
func RaceReadRange(p unsafe.Pointer, n int)  { runtime.RaceReadRange(p, n) }
