// Package simsync replaces package sync in the rewritten scratch copy: same
// API and semantics, but blocking is decided by the simulator kernel, so lock
// acquisition order is a recorded scheduling decision and a goroutine stuck on
// a lock is a visible state rather than a hang.
package simsync

import (
	"sync"
	"unsafe"

	"verif/sim/simrt"
)

type Map = sync.Map
type Pool = sync.Pool
type Locker = sync.Locker

// ---- Mutex ----

type Mutex struct {
	locked bool
	owner  *simrt.G
	real   sync.Mutex // used outside a world only
}

type lockOp struct {
	m *Mutex
	g *simrt.G
}

func (o lockOp) Ready() bool    { return !o.m.locked }
func (o lockOp) Do()            { o.m.locked = true; o.m.owner = o.g }
func (o lockOp) OpName() string { return "mutex-lock" }

// Holder reports who holds the mutex the op waits for (deadlock reports).
func (o lockOp) Holder() *simrt.G { return o.m.owner }

type unlockOp struct{ m *Mutex }

func (o unlockOp) Ready() bool    { return true }
func (o unlockOp) Do()            { o.m.locked = false; o.m.owner = nil }
func (o unlockOp) OpName() string { return "mutex-unlock" }

//go:norace
func (m *Mutex) Lock() {
	if simrt.K == nil {
		m.real.Lock()
		return
	}
	g := simrt.Cur()
	if g == nil { // kernel context (harness oracle): must be free
		m.locked = true
		return
	}
	simrt.Trap(lockOp{m, g}, true)
	simrt.RaceAcquire(unsafe.Pointer(m))
}

//go:norace
func (m *Mutex) Unlock() {
	if simrt.K == nil {
		m.real.Unlock()
		return
	}
	if simrt.Cur() == nil {
		m.locked = false
		return
	}
	simrt.RaceRelease(unsafe.Pointer(m))
	simrt.Trap(unlockOp{m}, simrt.PreemptUnlock())
}

type tryOp struct {
	m  *Mutex
	g  *simrt.G
	ok bool
}

func (o *tryOp) Ready() bool { return true }
func (o *tryOp) Do() {
	if !o.m.locked {
		o.m.locked = true
		o.m.owner = o.g
		o.ok = true
	}
}
func (o *tryOp) OpName() string { return "mutex-trylock" }

//go:norace
func (m *Mutex) TryLock() bool {
	if simrt.K == nil {
		return m.real.TryLock()
	}
	op := &tryOp{m: m, g: simrt.Cur()}
	simrt.Trap(op, true)
	if op.ok {
		simrt.RaceAcquire(unsafe.Pointer(m))
	}
	return op.ok
}

// ---- RWMutex ----

type RWMutex struct {
	writer  bool
	readers int
	real    sync.RWMutex
}

type rwOp struct {
	m    *RWMutex
	kind int // 0 lock 1 unlock 2 rlock 3 runlock
}

func (o rwOp) Ready() bool {
	switch o.kind {
	case 0:
		return !o.m.writer && o.m.readers == 0
	case 2:
		return !o.m.writer
	}
	return true
}
func (o rwOp) Do() {
	switch o.kind {
	case 0:
		o.m.writer = true
	case 1:
		o.m.writer = false
	case 2:
		o.m.readers++
	case 3:
		o.m.readers--
	}
}
func (o rwOp) OpName() string {
	return [...]string{"rw-lock", "rw-unlock", "rw-rlock", "rw-runlock"}[o.kind]
}

//go:norace
func (m *RWMutex) Lock() {
	if simrt.K == nil {
		m.real.Lock()
		return
	}
	simrt.Trap(rwOp{m, 0}, true)
	simrt.RaceAcquire(unsafe.Pointer(m))
}

//go:norace
func (m *RWMutex) Unlock() {
	if simrt.K == nil {
		m.real.Unlock()
		return
	}
	simrt.RaceRelease(unsafe.Pointer(m))
	simrt.Trap(rwOp{m, 1}, simrt.PreemptUnlock())
}

//go:norace
func (m *RWMutex) RLock() {
	if simrt.K == nil {
		m.real.RLock()
		return
	}
	simrt.Trap(rwOp{m, 2}, true)
	simrt.RaceAcquire(unsafe.Pointer(m))
}

//go:norace
func (m *RWMutex) RUnlock() {
	if simrt.K == nil {
		m.real.RUnlock()
		return
	}
	simrt.RaceReleaseMerge(unsafe.Pointer(m)) // several readers release before the next writer acquires
	simrt.Trap(rwOp{m, 3}, simrt.PreemptUnlock())
}

func (m *RWMutex) RLocker() Locker { return rlocker{m} }

type rlocker struct{ m *RWMutex }

func (r rlocker) Lock()   { r.m.RLock() }
func (r rlocker) Unlock() { r.m.RUnlock() }

// ---- WaitGroup ----

type WaitGroup struct {
	n    int
	real sync.WaitGroup
}

type wgOp struct {
	w     *WaitGroup
	delta int
	wait  bool
}

func (o wgOp) Ready() bool { return !o.wait || o.w.n <= 0 }
func (o wgOp) Do() {
	if !o.wait {
		o.w.n += o.delta
	}
}
func (o wgOp) OpName() string {
	if o.wait {
		return "wg-wait"
	}
	return "wg-add"
}

//go:norace
func (w *WaitGroup) Add(delta int) {
	if simrt.K == nil {
		w.real.Add(delta)
		return
	}
	if delta < 0 {
		simrt.RaceReleaseMerge(unsafe.Pointer(w)) // every Done counts for the Wait that follows
	}
	simrt.Trap(wgOp{w, delta, false}, false)
}

func (w *WaitGroup) Done() { w.Add(-1) }

//go:norace
func (w *WaitGroup) Wait() {
	if simrt.K == nil {
		w.real.Wait()
		return
	}
	simrt.Trap(wgOp{w, 0, true}, true)
	simrt.RaceAcquire(unsafe.Pointer(w))
}

// ---- Once ----

type Once struct {
	m    Mutex
	done bool
}

func (o *Once) Do(f func()) {
	o.m.Lock()
	defer o.m.Unlock()
	if !o.done {
		defer func() { o.done = true }()
		f()
	}
}

// ---- Cond ----

type Cond struct {
	L       Locker
	waiters []*condWaiter
}

type condWaiter struct{ signalled bool }

func NewCond(l Locker) *Cond { return &Cond{L: l} }

type condOp struct {
	c    *Cond
	w    *condWaiter
	kind int // 0 enqueue, 1 wait, 2 signal, 3 broadcast
}

func (o condOp) Ready() bool { return o.kind != 1 || o.w.signalled }
func (o condOp) Do() {
	switch o.kind {
	case 0:
		o.c.waiters = append(o.c.waiters, o.w)
	case 2:
		if len(o.c.waiters) > 0 {
			o.c.waiters[0].signalled = true
			o.c.waiters = o.c.waiters[1:]
		}
	case 3:
		for _, w := range o.c.waiters {
			w.signalled = true
		}
		o.c.waiters = nil
	}
}
func (o condOp) OpName() string {
	return [...]string{"cond-enqueue", "cond-wait", "cond-signal", "cond-broadcast"}[o.kind]
}

func (c *Cond) Wait() {
	w := &condWaiter{}
	simrt.Trap(condOp{c, w, 0}, false)
	c.L.Unlock()
	simrt.Trap(condOp{c, w, 1}, true)
	c.L.Lock()
}

func (c *Cond) Signal()    { simrt.Trap(condOp{c, nil, 2}, false) }
func (c *Cond) Broadcast() { simrt.Trap(condOp{c, nil, 3}, false) }
