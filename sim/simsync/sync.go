// Package simsync replaces package sync in the rewritten scratch copy: same
// API and semantics, but blocking is decided by the simulator kernel, so lock
// acquisition order is a recorded scheduling decision and a goroutine stuck on
// a lock is a visible state rather than a hang.
package simsync

import (
	"fmt"
	"sort"
	"sync"
	"unsafe"

	"verif/sim/simrt"
)

type Locker = sync.Locker

// ---- Map ----

// Map is sync.Map with every operation preceded by a scheduling point (a
// check-then-act over a concurrent map is an interleaving like one over a
// lock) and with Range in an order the kernel decides: canonical order of the
// keys, permuted when the world perturbs map order. The real sync.Map ranges
// in an order that differs from process to process.
type Map struct{ m sync.Map }

func yield() {
	if simrt.K != nil && simrt.Cur() != nil {
		simrt.Yield()
	}
}

func (m *Map) Load(key any) (any, bool)               { yield(); return m.m.Load(key) }
func (m *Map) Store(key, value any)                   { yield(); m.m.Store(key, value) }
func (m *Map) LoadOrStore(key, value any) (any, bool) { yield(); return m.m.LoadOrStore(key, value) }
func (m *Map) LoadAndDelete(key any) (any, bool)      { yield(); return m.m.LoadAndDelete(key) }
func (m *Map) Delete(key any)                         { yield(); m.m.Delete(key) }
func (m *Map) Swap(key, value any) (any, bool)        { yield(); return m.m.Swap(key, value) }
func (m *Map) CompareAndSwap(key, old, new any) bool {
	yield()
	return m.m.CompareAndSwap(key, old, new)
}
func (m *Map) CompareAndDelete(key, old any) bool { yield(); return m.m.CompareAndDelete(key, old) }
func (m *Map) Clear()                             { yield(); m.m.Clear() }

func (m *Map) Range(f func(key, value any) bool) {
	yield()
	type ent struct {
		k any
		s string
	}
	var ents []ent
	m.m.Range(func(k, _ any) bool { ents = append(ents, ent{k, fmt.Sprintf("%T %#v", k, k)}); return true })
	sort.Slice(ents, func(i, j int) bool { return ents[i].s < ents[j].s })
	order := simrt.MapOrder(len(ents))
	for i := range ents {
		k := ents[i].k
		if order != nil {
			k = ents[order[i]].k
		}
		v, ok := m.m.Load(k)
		if !ok {
			continue
		}
		if !f(k, v) {
			return
		}
	}
}

// ---- Pool ----

// Pool models sync.Pool: Get returns any item put before or a new one - which
// of them is the kernel's choice (the real pool keeps items per processor and
// drops them at garbage collections, so what Get returns differs from run to
// run; here it is on the tape). Put/Get carry the happens-before edge the real
// pool reports to the race detector.
type Pool struct {
	New   func() any
	items [64]any
	n     int
	owner *simrt.Kernel // the world the items belong to: a pool in a package variable starts every world empty
	real  sync.Pool
}

//go:norace
func (p *Pool) enter() {
	if p.owner != simrt.K {
		p.owner = simrt.K
		for i := 0; i < p.n; i++ {
			p.items[i] = nil
		}
		p.n = 0
	}
}

//go:norace
func (p *Pool) Get() any {
	if simrt.K == nil || simrt.Cur() == nil {
		if v := p.real.Get(); v != nil {
			return v
		}
		if p.New != nil {
			return p.New()
		}
		return nil
	}
	simrt.Yield()
	p.enter()
	n := p.n
	if n > 0 {
		// n items and "the pool lost them": mostly hand out an item
		i := simrt.Pick(n + 1)
		if i < n {
			v := p.items[i]
			p.items[i] = p.items[n-1]
			p.items[n-1] = nil
			p.n = n - 1
			simrt.RaceAcquire(unsafe.Pointer(p))
			return v
		}
	}
	if p.New != nil {
		return p.New()
	}
	return nil
}

//go:norace
func (p *Pool) Put(x any) {
	if x == nil {
		return
	}
	if simrt.K == nil || simrt.Cur() == nil {
		p.real.Put(x)
		return
	}
	simrt.Yield()
	p.enter()
	simrt.RaceReleaseMerge(unsafe.Pointer(p))
	if p.n < len(p.items) {
		p.items[p.n] = x
		p.n++
	}
}

// ---- Mutex ----

type Mutex struct {
	locked bool
	owner  *simrt.G
	real   sync.Mutex // used outside a world only
}

type lockOp struct {
	m *Mutex
	g *simrt.G
}

func (o lockOp) Ready() bool    { return !o.m.locked }
func (o lockOp) Do()            { o.m.locked = true; o.m.owner = o.g }
func (o lockOp) OpName() string { return "mutex-lock" }

// Holder reports who holds the mutex the op waits for (deadlock reports).
func (o lockOp) Holder() *simrt.G { return o.m.owner }

type unlockOp struct{ m *Mutex }

func (o unlockOp) Ready() bool    { return true }
func (o unlockOp) Do()            { o.m.locked = false; o.m.owner = nil }
func (o unlockOp) OpName() string { return "mutex-unlock" }

//go:norace
func (m *Mutex) Lock() {
	if simrt.K == nil {
		m.real.Lock()
		return
	}
	g := simrt.Cur()
	if g == nil { // kernel context (harness oracle): must be free
		m.locked = true
		return
	}
	simrt.Trap(lockOp{m, g}, true)
	simrt.RaceAcquire(unsafe.Pointer(m))
}

//go:norace
func (m *Mutex) Unlock() {
	if simrt.K == nil {
		m.real.Unlock()
		return
	}
	if simrt.Cur() == nil {
		m.locked = false
		return
	}
	simrt.RaceRelease(unsafe.Pointer(m))
	simrt.Trap(unlockOp{m}, simrt.PreemptUnlock())
}

type tryOp struct {
	m  *Mutex
	g  *simrt.G
	ok bool
}

func (o *tryOp) Ready() bool { return true }
func (o *tryOp) Do() {
	if !o.m.locked {
		o.m.locked = true
		o.m.owner = o.g
		o.ok = true
	}
}
func (o *tryOp) OpName() string { return "mutex-trylock" }

//go:norace
func (m *Mutex) TryLock() bool {
	if simrt.K == nil {
		return m.real.TryLock()
	}
	op := &tryOp{m: m, g: simrt.Cur()}
	simrt.Trap(op, true)
	if op.ok {
		simrt.RaceAcquire(unsafe.Pointer(m))
	}
	return op.ok
}

// ---- RWMutex ----

type RWMutex struct {
	writer  bool
	readers int
	real    sync.RWMutex
}

type rwOp struct {
	m    *RWMutex
	kind int // 0 lock 1 unlock 2 rlock 3 runlock
}

func (o rwOp) Ready() bool {
	switch o.kind {
	case 0:
		return !o.m.writer && o.m.readers == 0
	case 2:
		return !o.m.writer
	}
	return true
}
func (o rwOp) Do() {
	switch o.kind {
	case 0:
		o.m.writer = true
	case 1:
		o.m.writer = false
	case 2:
		o.m.readers++
	case 3:
		o.m.readers--
	}
}
func (o rwOp) OpName() string {
	return [...]string{"rw-lock", "rw-unlock", "rw-rlock", "rw-runlock"}[o.kind]
}

//go:norace
func (m *RWMutex) Lock() {
	if simrt.K == nil {
		m.real.Lock()
		return
	}
	simrt.Trap(rwOp{m, 0}, true)
	simrt.RaceAcquire(unsafe.Pointer(m))
}

//go:norace
func (m *RWMutex) Unlock() {
	if simrt.K == nil {
		m.real.Unlock()
		return
	}
	simrt.RaceRelease(unsafe.Pointer(m))
	simrt.Trap(rwOp{m, 1}, simrt.PreemptUnlock())
}

//go:norace
func (m *RWMutex) RLock() {
	if simrt.K == nil {
		m.real.RLock()
		return
	}
	simrt.Trap(rwOp{m, 2}, true)
	simrt.RaceAcquire(unsafe.Pointer(m))
}

//go:norace
func (m *RWMutex) RUnlock() {
	if simrt.K == nil {
		m.real.RUnlock()
		return
	}
	simrt.RaceReleaseMerge(unsafe.Pointer(m)) // several readers release before the next writer acquires
	simrt.Trap(rwOp{m, 3}, simrt.PreemptUnlock())
}

func (m *RWMutex) RLocker() Locker { return rlocker{m} }

type rlocker struct{ m *RWMutex }

func (r rlocker) Lock()   { r.m.RLock() }
func (r rlocker) Unlock() { r.m.RUnlock() }

// ---- WaitGroup ----

type WaitGroup struct {
	n    int
	real sync.WaitGroup
}

type wgOp struct {
	w     *WaitGroup
	delta int
	wait  bool
}

func (o wgOp) Ready() bool { return !o.wait || o.w.n <= 0 }
func (o wgOp) Do() {
	if !o.wait {
		o.w.n += o.delta
	}
}
func (o wgOp) OpName() string {
	if o.wait {
		return "wg-wait"
	}
	return "wg-add"
}

//go:norace
func (w *WaitGroup) Add(delta int) {
	if simrt.K == nil {
		w.real.Add(delta)
		return
	}
	if delta < 0 {
		simrt.RaceReleaseMerge(unsafe.Pointer(w)) // every Done counts for the Wait that follows
	}
	simrt.Trap(wgOp{w, delta, false}, false)
}

func (w *WaitGroup) Done() { w.Add(-1) }

// Go is WaitGroup.Go of Go 1.25: f runs as a simulated goroutine.
func (w *WaitGroup) Go(f func()) {
	w.Add(1)
	simrt.Go("WaitGroup.Go", func() {
		defer w.Done()
		f()
	})
}

//go:norace
func (w *WaitGroup) Wait() {
	if simrt.K == nil {
		w.real.Wait()
		return
	}
	simrt.Trap(wgOp{w, 0, true}, true)
	simrt.RaceAcquire(unsafe.Pointer(w))
}

// ---- Once ----

type Once struct {
	m    Mutex
	done bool
}

func (o *Once) Do(f func()) {
	o.m.Lock()
	defer o.m.Unlock()
	if !o.done {
		defer func() { o.done = true }()
		f()
	}
}

// OnceFunc, OnceValue, OnceValues: as in package sync, over the Once above (a second caller waits as a simulated
// goroutine, not inside the runtime).
func OnceFunc(f func()) func() {
	var o Once
	return func() { o.Do(f) }
}

func OnceValue[T any](f func() T) func() T {
	var o Once
	var v T
	return func() T {
		o.Do(func() { v = f() })
		return v
	}
}

func OnceValues[T1, T2 any](f func() (T1, T2)) func() (T1, T2) {
	var o Once
	var v1 T1
	var v2 T2
	return func() (T1, T2) {
		o.Do(func() { v1, v2 = f() })
		return v1, v2
	}
}

// ---- Cond ----

type Cond struct {
	L       Locker
	waiters []*condWaiter
}

type condWaiter struct{ signalled bool }

func NewCond(l Locker) *Cond { return &Cond{L: l} }

type condOp struct {
	c    *Cond
	w    *condWaiter
	kind int // 0 enqueue, 1 wait, 2 signal, 3 broadcast
}

func (o condOp) Ready() bool { return o.kind != 1 || o.w.signalled }
func (o condOp) Do() {
	switch o.kind {
	case 0:
		o.c.waiters = append(o.c.waiters, o.w)
	case 2:
		if len(o.c.waiters) > 0 {
			o.c.waiters[0].signalled = true
			o.c.waiters = o.c.waiters[1:]
		}
	case 3:
		for _, w := range o.c.waiters {
			w.signalled = true
		}
		o.c.waiters = nil
	}
}
func (o condOp) OpName() string {
	return [...]string{"cond-enqueue", "cond-wait", "cond-signal", "cond-broadcast"}[o.kind]
}

func (c *Cond) Wait() {
	w := &condWaiter{}
	simrt.Trap(condOp{c, w, 0}, false)
	c.L.Unlock()
	simrt.Trap(condOp{c, w, 1}, true)
	c.L.Lock()
}

func (c *Cond) Signal()    { simrt.Trap(condOp{c, nil, 2}, false) }
func (c *Cond) Broadcast() { simrt.Trap(condOp{c, nil, 3}, false) }
