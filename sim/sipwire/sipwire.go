// Package sipwire is the harness's own, independent reader and writer of SIP
// messages on the wire. Oracles use it instead of sipproxy's parser: it
// decodes exactly the components the properties name and nothing else.
package sipwire

import (
	"bytes"
	"errors"
	"fmt"
	"strconv"
	"strings"
)

type Header struct {
	Name  string // as on the wire
	Value string // surrounding blanks removed
}

type Msg struct {
	StartLine string
	IsRequest bool
	Method    string
	URI       string
	Version   string
	Status    int
	Reason    string
	Headers   []Header
	Body      []byte
}

var compact = map[string]string{
	"a": "accept-contact", "b": "referred-by", "c": "content-type", "e": "content-encoding",
	"f": "from", "i": "call-id", "k": "supported", "l": "content-length", "m": "contact",
	"o": "event", "r": "refer-to", "s": "subject", "t": "to", "u": "allow-events", "v": "via",
	// registered after RFC 3261 (RFC 4028, 3841, 8224): not in the proxy's own table, compact forms all the same
	"x": "session-expires", "j": "reject-contact", "d": "request-disposition", "y": "identity",
}

// Canon maps a header name to its canonical lower-case long form.
func Canon(name string) string {
	n := strings.ToLower(strings.TrimSpace(name))
	if long, ok := compact[n]; ok {
		return long
	}
	return n
}

// CompactOf returns the compact form of a canonical name, if any.
func CompactOf(canon string) (string, bool) {
	for c, l := range compact {
		if l == canon {
			return c, true
		}
	}
	return "", false
}

// Parse reads one message from the front of b. Line ends may be CRLF or LF.
// The body is delimited by Content-Length (any spelling); when absent the
// rest of b is the body (datagram semantics). rest is what follows.
func Parse(b []byte) (m *Msg, rest []byte, err error) {
	m = &Msg{}
	pos := 0
	// leading CRLF keep-alives
	for pos < len(b) && (b[pos] == '\r' || b[pos] == '\n') {
		pos++
	}
	first := true
	for {
		if pos >= len(b) {
			return nil, nil, errors.New("sipwire: header section not terminated")
		}
		nl := bytes.IndexByte(b[pos:], '\n')
		if nl < 0 {
			return nil, nil, errors.New("sipwire: header section not terminated")
		}
		line := b[pos : pos+nl]
		pos += nl + 1
		if len(line) > 0 && line[len(line)-1] == '\r' {
			line = line[:len(line)-1]
		}
		if first {
			if err := m.parseStart(string(line)); err != nil {
				return nil, nil, err
			}
			first = false
			continue
		}
		if len(line) == 0 {
			break
		}
		c := bytes.IndexByte(line, ':')
		if c < 0 {
			return nil, nil, fmt.Errorf("sipwire: header line without colon: %q", trunc(string(line)))
		}
		m.Headers = append(m.Headers, Header{Name: string(line[:c]), Value: strings.Trim(string(line[c+1:]), " \t")})
	}
	cl := -1
	for _, h := range m.Headers {
		if Canon(h.Name) == "content-length" {
			v, err := strconv.Atoi(strings.TrimSpace(h.Value))
			if err != nil || v < 0 {
				return nil, nil, fmt.Errorf("sipwire: bad Content-Length %q", h.Value)
			}
			cl = v
		}
	}
	if cl < 0 {
		m.Body = b[pos:]
		return m, nil, nil
	}
	if pos+cl > len(b) {
		return nil, nil, fmt.Errorf("sipwire: body shorter (%d) than Content-Length %d", len(b)-pos, cl)
	}
	m.Body = b[pos : pos+cl]
	return m, b[pos+cl:], nil
}

func trunc(s string) string {
	if len(s) > 80 {
		return s[:80] + "..."
	}
	return s
}

func (m *Msg) parseStart(line string) error {
	m.StartLine = line
	if strings.HasPrefix(line, "SIP/") {
		f := strings.SplitN(line, " ", 3)
		if len(f) < 2 {
			return fmt.Errorf("sipwire: bad status line %q", trunc(line))
		}
		st, err := strconv.Atoi(f[1])
		if err != nil {
			return fmt.Errorf("sipwire: bad status line %q", trunc(line))
		}
		m.Version, m.Status = f[0], st
		if len(f) == 3 {
			m.Reason = f[2]
		}
		return nil
	}
	f := strings.Split(line, " ")
	if len(f) != 3 {
		return fmt.Errorf("sipwire: bad request line %q", trunc(line))
	}
	m.IsRequest = true
	m.Method, m.URI, m.Version = f[0], f[1], f[2]
	return nil
}

// Get returns the values of all header fields with the given canonical name.
func (m *Msg) Get(canon string) []string {
	var out []string
	for _, h := range m.Headers {
		if Canon(h.Name) == canon {
			out = append(out, h.Value)
		}
	}
	return out
}

func (m *Msg) First(canon string) (string, bool) {
	for _, h := range m.Headers {
		if Canon(h.Name) == canon {
			return h.Value, true
		}
	}
	return "", false
}

// SplitList splits a header value at top-level commas (outside quotes and <>).
func SplitList(v string) []string {
	var out []string
	depth, quote := 0, false
	start := 0
	for i := 0; i < len(v); i++ {
		c := v[i]
		switch {
		case quote:
			if c == '\\' {
				i++
			} else if c == '"' {
				quote = false
			}
		case c == '"':
			quote = true
		case c == '<':
			depth++
		case c == '>':
			if depth > 0 {
				depth--
			}
		case c == ',' && depth == 0:
			out = append(out, strings.TrimSpace(v[start:i]))
			start = i + 1
		}
	}
	out = append(out, strings.TrimSpace(v[start:]))
	return out
}

// List flattens all fields of a canonical name into their list entries.
func (m *Msg) List(canon string) []string {
	var out []string
	for _, v := range m.Get(canon) {
		out = append(out, SplitList(v)...)
	}
	return out
}

type KV struct {
	K, V   string
	HasVal bool
}

func (p KV) String() string {
	if p.HasVal {
		return p.K + "=" + p.V
	}
	return p.K
}

// splitOutsideQuotes cuts s at every sep that is not inside a quoted string.
func splitOutsideQuotes(s string, sep byte) []string {
	var out []string
	q := false
	start := 0
	for i := 0; i < len(s); i++ {
		switch {
		case q && s[i] == '\\':
			i++
		case s[i] == '"':
			q = !q
		case s[i] == sep && !q:
			out = append(out, s[start:i])
			start = i + 1
		}
	}
	return append(out, s[start:])
}

func parseParams(s string) []KV {
	var out []KV
	if s == "" {
		return nil
	}
	for _, p := range splitOutsideQuotes(s, ';') {
		p = strings.TrimSpace(p)
		if p == "" {
			continue
		}
		if i := strings.IndexByte(p, '='); i >= 0 {
			out = append(out, KV{K: p[:i], V: p[i+1:], HasVal: true})
		} else {
			out = append(out, KV{K: p})
		}
	}
	return out
}

type Via struct {
	Raw       string
	Proto     string // e.g. SIP/2.0/UDP
	Transport string // UDP
	Host      string
	Port      int // 0 = absent
	Params    []KV
}

func ParseVia(entry string) (Via, error) {
	v := Via{Raw: entry}
	entry = strings.TrimSpace(entry)
	sp := strings.IndexAny(entry, " \t")
	if sp < 0 {
		return v, fmt.Errorf("sipwire: bad via %q", trunc(entry))
	}
	v.Proto = entry[:sp]
	pp := strings.Split(v.Proto, "/")
	if len(pp) != 3 {
		return v, fmt.Errorf("sipwire: bad sent-protocol %q", v.Proto)
	}
	v.Transport = pp[2]
	rest := strings.TrimSpace(entry[sp+1:])
	sentBy := rest
	if i := strings.IndexByte(rest, ';'); i >= 0 {
		sentBy = strings.TrimSpace(rest[:i])
		v.Params = parseParams(rest[i+1:])
	}
	if strings.HasPrefix(sentBy, "[") {
		end := strings.IndexByte(sentBy, ']')
		if end < 0 {
			return v, fmt.Errorf("sipwire: bad sent-by %q", sentBy)
		}
		v.Host = sentBy[:end+1]
		if end+1 < len(sentBy) && sentBy[end+1] == ':' {
			p, err := strconv.Atoi(sentBy[end+2:])
			if err != nil {
				return v, err
			}
			v.Port = p
		}
		return v, nil
	}
	if i := strings.LastIndexByte(sentBy, ':'); i >= 0 {
		p, err := strconv.Atoi(sentBy[i+1:])
		if err != nil {
			return v, fmt.Errorf("sipwire: bad sent-by port %q", sentBy)
		}
		if p == 0 {
			p = -1 // an explicit ":0" is not the same as no port (which means the transport's default)
		}
		v.Host, v.Port = sentBy[:i], p
	} else {
		v.Host = sentBy
	}
	return v, nil
}

func (v Via) Param(name string) (KV, bool) {
	for _, p := range v.Params {
		if p.K == name {
			return p, true
		}
	}
	return KV{}, false
}

// EffPort is the port with the transport default applied.
func (v Via) EffPort() int {
	if v.Port != 0 {
		return v.Port
	}
	if strings.EqualFold(v.Transport, "TLS") {
		return 5061
	}
	return 5060
}

func (m *Msg) Vias() ([]Via, error) {
	var out []Via
	for _, e := range m.List("via") {
		v, err := ParseVia(e)
		if err != nil {
			return nil, err
		}
		out = append(out, v)
	}
	return out, nil
}

// NameAddr is one Route / Record-Route / From / To style value.
type NameAddr struct {
	Raw     string
	Display string
	URI     string // text between < > (or the bare addr-spec)
	Scheme  string
	User    string
	Host    string
	Port    int
	UParams []KV // URI parameters
	UHdrs   string
	HParams []KV // header parameters after '>'
	Bracket bool
}

func ParseNameAddr(entry string) (NameAddr, error) {
	na := NameAddr{Raw: entry}
	s := strings.TrimSpace(entry)
	lt := indexOutsideQuotes(s, '<')
	if lt >= 0 {
		gt := strings.IndexByte(s[lt:], '>')
		if gt < 0 {
			return na, fmt.Errorf("sipwire: bad name-addr %q", trunc(entry))
		}
		gt += lt
		na.Bracket = true
		na.Display = strings.TrimSpace(s[:lt])
		na.URI = s[lt+1 : gt]
		rest := strings.TrimSpace(s[gt+1:])
		if strings.HasPrefix(rest, ";") {
			na.HParams = parseParams(rest[1:])
		}
	} else {
		// bare addr-spec: parameters after ';' are header parameters
		if i := strings.IndexByte(s, ';'); i >= 0 {
			na.URI = s[:i]
			na.HParams = parseParams(s[i+1:])
		} else {
			na.URI = s
		}
	}
	na.parseURI()
	return na, nil
}

func indexOutsideQuotes(s string, c byte) int {
	q := false
	for i := 0; i < len(s); i++ {
		switch {
		case q:
			if s[i] == '\\' {
				i++
			} else if s[i] == '"' {
				q = false
			}
		case s[i] == '"':
			q = true
		case s[i] == c:
			return i
		}
	}
	return -1
}

func (na *NameAddr) parseURI() {
	u := na.URI
	i := strings.IndexByte(u, ':')
	if i < 0 {
		return
	}
	na.Scheme = strings.ToLower(u[:i])
	if na.Scheme != "sip" && na.Scheme != "sips" {
		return
	}
	r := u[i+1:]
	if q := strings.IndexByte(r, '?'); q >= 0 {
		na.UHdrs = r[q+1:]
		r = r[:q]
	}
	if at := strings.IndexByte(r, '@'); at >= 0 {
		na.User = r[:at]
		r = r[at+1:]
	}
	if sc := strings.IndexByte(r, ';'); sc >= 0 {
		na.UParams = parseParams(r[sc+1:])
		r = r[:sc]
	}
	if c := strings.LastIndexByte(r, ':'); c >= 0 && !strings.HasSuffix(r, "]") {
		if p, err := strconv.Atoi(r[c+1:]); err == nil {
			na.Port = p
			r = r[:c]
		}
	}
	na.Host = r
}

func (na NameAddr) UParam(name string) (KV, bool) {
	for _, p := range na.UParams {
		if strings.EqualFold(p.K, name) {
			return p, true
		}
	}
	return KV{}, false
}

func (na NameAddr) HParam(name string) (KV, bool) {
	for _, p := range na.HParams {
		if strings.EqualFold(p.K, name) {
			return p, true
		}
	}
	return KV{}, false
}

// URINoParams is scheme:user@host:port for SIP URIs, the whole URI otherwise.
func (na NameAddr) URINoParams() string {
	if na.Scheme != "sip" && na.Scheme != "sips" {
		return na.URI
	}
	s := na.Scheme + ":"
	if na.User != "" {
		s += na.User + "@"
	}
	s += na.Host
	if na.Port != 0 {
		s += ":" + strconv.Itoa(na.Port)
	}
	return s
}

func (m *Msg) NameAddrs(canon string) ([]NameAddr, error) {
	var out []NameAddr
	for _, e := range m.List(canon) {
		na, err := ParseNameAddr(e)
		if err != nil {
			return nil, err
		}
		out = append(out, na)
	}
	return out, nil
}

// Builder assembles a message.
type Builder struct {
	Start   string
	Headers []Header
	Body    []byte
	NoCL    bool   // do not add Content-Length automatically
	CLName  string // spelling of the Content-Length name
	CLZeros int    // leading zeros in front of the Content-Length value (1*DIGIT: still decimal)
	CLAt    int    // 0: Content-Length is the last header field; k > 0: it stands in front of header k-1
	// Seps: what stands between the name and the value of header i instead of ": " (":" followed by any blanks; -1 is
	// the Content-Length field the builder adds)
	Seps map[int]string
	EOL     string
}

func (b *Builder) Add(name, value string) *Builder {
	b.Headers = append(b.Headers, Header{name, value})
	return b
}

func (b *Builder) sep(i int) string {
	if s, ok := b.Seps[i]; ok {
		return s
	}
	return ": "
}

func (b *Builder) Bytes() []byte {
	eol := b.EOL
	if eol == "" {
		eol = "\r\n"
	}
	var buf bytes.Buffer
	buf.WriteString(b.Start)
	buf.WriteString(eol)
	writeCL := func() {
		n := b.CLName
		if n == "" {
			n = "Content-Length"
		}
		buf.WriteString(n)
		buf.WriteString(b.sep(-1))
		buf.WriteString(strings.Repeat("0", b.CLZeros))
		buf.WriteString(strconv.Itoa(len(b.Body)))
		buf.WriteString(eol)
	}
	done := b.NoCL
	for i, h := range b.Headers {
		if !done && b.CLAt > 0 && i == b.CLAt-1 {
			writeCL()
			done = true
		}
		buf.WriteString(h.Name)
		buf.WriteString(b.sep(i))
		buf.WriteString(h.Value)
		buf.WriteString(eol)
	}
	if !done {
		writeCL()
	}
	buf.WriteString(eol)
	buf.Write(b.Body)
	return buf.Bytes()
}
