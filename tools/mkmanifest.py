#!/usr/bin/env python3
"""Regenerates /verif/MANIFEST.json from the table below."""
import json, os

V = "/verif"
props = [json.loads(l) for l in open(os.path.join(V, "properties.jsonl"))]

NOTE_COMMON = ("Trusted base: the simulator kernel (simrt), the simulated net/sync packages, the source rewriter simprep (rules R1-R8, "
               "no sipproxy-specific knowledge), the independent SIP reader sipwire and the reference model in harness/model.go. "
               "Scheduling points are synchronisation, channel, timer and I/O operations. Schedules, faults and inputs are sampled from VERIF_SEED; "
               "a clean batch is evidence, not proof.")

CHECKS = {
    "C01": ("exploration", "3 C01", "seeded simulation of the real proxy (UDP+TCP relay world) with a conservation oracle at the socket boundary",
            "Every message the real proxy emits in a simulated deployment (1-3 listeners from generated YAML, four relaying paths, UDP and TCP ingress/egress, full-width generated headers and bodies, seeded schedules) is attributed to the message that caused it and compared field by field outside the headers the proxy owns; exactly one Content-Length equal to the body sent."),
    "C02": ("exploration", "3 C02", "seeded simulation: response injection over UDP/TCP judged against a reference next-hop function; absence decided at exact quiescence",
            "Responses with 1-6 Via entries in all layouts are injected at the listeners of the simulated proxy; at exact quiescence the emissions attributable to each must be none or exactly one to the address/transport the reference function derives from the sent bytes, with the remaining Via entries intact. A sixteenth of the worlds are C12's TCP-client worlds, judged by the last sentence of the statement (the answer returns to the hop its request came from)."),
    "C03": ("exploration", "3 C03", "seeded simulation over the decision table of configurations x request shapes, reference precedence function, exactly-one/none at quiescence",
            "Configurations and requests are drawn to cover Route / static route / service / drop classes; the set of emissions attributable to each arrival, observed at the simulated socket boundary at exact quiescence, must be exactly the one destination the reference precedence function gives (or empty)."),
    "C05": ("exploration", "3 C05", "seeded schedules of racing simulated goroutines on the real round-robin set; recorded invoke/return history checked with porcupine against a sequential rotation specification; plus rotation windows through the proxy under DNS-driven membership",
            "One simulated goroutine dispatches through a real RoundRobinBackend while one or two others add and remove real UDP backends on the simulated network (sequences up to 400 operations over 5 addresses, short ones dominate); which lock acquisition interleaves with which is decided by the seeded scheduler (random, run-to-block, PCT); the history stamped with a global sequence number must be linearizable w.r.t. the specification written from the statement (member at that moment, strict rotation between changes, 'none' only when empty). Through the proxy: after every resolution step any k consecutive dispatches over k backends reach each exactly once."),
    "C06": ("exploration", "3 C06", "seeded simulation with learning histories; Via/Record-Route model with causal 'learned' relation; branch freshness per world",
            "Relay world with learning histories across 1-3 listeners; each relayed request's Via and Record-Route lists are compared with the reference insertion policy (inserted iff backend path or causally learned next hop; don't-care when the teaching is concurrent or ambiguous). A sixteenth of the worlds are the name-resolution worlds of C19 (requests towards backends while the rotation changes, pinned dialogs of withdrawn backends): one fresh Via of the listen entry on each."),
    "C07": ("exploration", "3 C07", "seeded simulation of YAML-started listeners with arbitrary simulated source addresses; stamp and return-path oracle",
            "The proxy is started from generated YAML exactly as main() does it (no-received absent/true/false); requests arrive from arbitrary simulated source addresses over UDP and TCP with spoofed/absent received and rport; the sender's Via at the next hop must carry the true source (or be untouched when disabled). A sixteenth of the worlds are C12's TCP-client worlds: with received-support on, every final answer travels back to the connection its request really came from."),
    "C11": ("exploration", "3 C11", "seeded fault injection on the TCP byte stream: plan-chosen segmentation and kernel-chosen read sizes; sequence equality per connection at quiescence",
            "Streams of 1-8 generated messages (long header lines, bodies that look like SIP, LF/CRLF, keep-alives) are cut into segments by the plan (systematic single/double cuts for short streams, clustered multi-cuts otherwise) and read back in kernel-chosen sizes; per connection the relayed messages must be exactly the stream's messages in order and content."),
    "C13": ("exploration", "3 C13", "seeded simulation with Route-set generator, alias tables and keep-next-hop settings; reference route-consumption function",
            "Requests with Route sets of 0-6 entries (own address / alias / near misses / foreign, decorated entries) are relayed by the simulated proxy; the relayed Route list must equal the reference: own entry consumed only when it designates the receiving listener, next hop stripped unless configured to keep it, the rest unchanged in order."),
    "C04": ("exploration", "3 C04", "seeded simulation of concurrent dialogs with reactive parties, UDP duplication/reordering/loss; pin model driven by observed causality",
            "1-50 concurrent INVITE and SUBSCRIBE dialogs over 2-6 backends behind one or two listeners; backends answer from their configured address, user agents continue a dialog when they observe the answer; every in-dialog request sent after the establishing answer was observed must reach the answering backend and nothing else (requests concurrent with the establishing event are counted don't-cares). Variants: name-resolution worlds (pins survive membership changes), dialogs established by TCP backends over connections the proxy opened, and 6 % lifetime worlds of C15 judged by C04's rule."),
    "C08": ("exploration", "3 C08", "seeded simulation with corruption / truncation / hostile-field faults on both transports; wedge detection as a state (goroutine census at exact quiescence), sentinel transaction per listener after every hostile delivery, allocation bound",
            "Structural mutations of valid messages (bit flips, insert/delete, truncation, chunk duplication, splicing), raw bytes and hostile field values (Content-Length, Via host, missing or unparsable headers, thousands of headers/parameters) are delivered over UDP and TCP to a proxy carrying valid background traffic; after each one and exact quiescence: no goroutine panicked, all listener goroutines alive and idle, nothing stuck on a lock or channel send, a sentinel request per listener and transport relayed and answered, definitely-malformed TCP streams closed, allocated bytes <= 8 MiB + 64 x bytes delivered. Inputs are sampled by seeded structural mutation, not coverage-guided."),
    "C09": ("exploration", "3 C09", "seeded schedules (PCT, starvation, run-to-block, random) of the real proxy's goroutines with the Go race detector working inside the serialised simulation; simultaneous bursts timed on the resolver's poll instants, DNS churn, TCP backends dropping connections; census, conservation and panic oracles",
            "2-4 listen entries of one service (shared learned-route table, resolver and static routes), UDP and TCP clients and backends, a backend host name shared by two entries and changed by the DNS script while simultaneous bursts arrive at the poll instants; -race build: every report whose stacks include the program under test is a violation (detection is by happens-before, so it does not depend on the accesses being adjacent); at quiescence no goroutine is stuck on a lock or channel send or has died, every request reached exactly one backend of its own entry and every answer returned to its sender. 45% of the worlds are the C10, C12, C04, C05 and C19 worlds re-run under the detector (buffer pool, transport table, rotation, resolver). The worlds of C10, C12, C04, C05 and C19 run under the race detector too; what their oracles say about lost, doubled or misdelivered messages counts as C09's conservation clause."),
    "C10": ("exploration", "3 C10", "seeded simulation of back-to-back datagram bursts (simultaneous arrivals) with starvation / PCT / random scheduling of the receive, parse and loop goroutines; truncation and length-lie faults; marker purity plus solo-replay differential",
            "5-200 datagrams of 20 B - 60 KiB, each intact, cut at a drawn offset or lying about its length, arrive in simultaneous bursts so that receive buffers are recycled in scheduler-chosen orders; every emission must carry the marker of exactly one datagram, incomplete or over-declaring datagrams must produce no emission at exact quiescence, intact ones exactly one equal emission, and a sampled datagram must be relayed identically when replayed alone in a fresh world. In 15 % of the worlds the proxy is a slow node (every queue hand-over takes simulated time), so datagrams that arrive at different instants overlap as well."),
    "C12": ("exploration", "3 C12", "seeded simulation: 2-8 TCP client connections from one simulated address, answers of reactive backends reordered across connections, segmentation and short reads",
            "Every provisional and first final answer relayed for a request must be a write on the connection on which the request with that branch arrived; the proxy must not dial towards the client while its connections are open; every answered transaction gets its final answer."),
    "C15": ("exploration", "3 C15", "seeded simulation under the simulated clock (testing/synctest): exact expiry-instant probes (t0+L-1ns / t0+L / t0+L+1ns), termination, decades-long Expires; timed pin model; in-package table-age bound for the purge clause",
            "dialogTimeout from YAML or DEFAULT_DIALOG_TIMEOUT (1 s - 2 h), establishing responses with Expires absent / smaller / larger / 2^31-1; the kernel knows the simulated instant t0 at which the establishing response was handed to the proxy, so a probe (as many simultaneous in-dialog requests as there are backends) processed before t0+max(timeout,Expires) must reach the pinned backend and one processed after it (or after BYE / NOTIFY terminated) must be load-balanced, with 1 ns resolution and no slack; in the purge variant 3-20 timeout periods of continuing traffic with mixed Expires must leave no entry that expired more than one timeout (plus the longest traffic gap) ago. Variants: dialogs established by TCP backends, and 6 % concurrent dialog worlds of C04 judged by C15's first clause."),
    "C17": ("exploration", "3 C17", "metamorphic twin worlds: same plan, same schedule tape and entropy, every message respelled / re-laid-out; histories compared event by event",
            "World B replays world A's plan with header names independently respelled (canonical, compact, upper, lower, random case) and Via/Route/Record-Route lists re-laid-out; relay decision, destination, decoded routing stacks, remaining headers, body and the pinning decisions of scripted dialogs must be the same."),
    "C18": ("exploration", "3 C18", "seeded simulation with map iteration order drawn from the seed (rewrite rule R5); in-package repeated lookups on the table built by the real configuration code plus end-to-end routed requests",
            "Route tables of 1-4 (thorough: up to 9) entries over the pattern universe; each host of the universe is looked up 50 times by a simulated goroutine while the kernel permutes every map iteration; answers must belong to the class's admissible set and be identical across repetitions; requests routed by To host must reach the same destination every time."),
    "C19": ("exploration", "3 C19", "seeded DNS fault sequences (answers as a function of simulated time, failure runs of length 1-5) driving the real resolver's 2 s poll on the simulated clock; membership model; dispatch, attribution and socket-accounting probes at exact quiescence after every poll",
            "Backends given by one or two host names (udp:// and tcp://); after the start-up resolution and after every poll the world runs to quiescence and then 2|S|+1 unpinned requests must reach exactly the model's addresses (dropped when empty), a 2xx injected from a member's / a removed address must / must not bind a dialog to it, and the proxy must hold exactly one backend socket per member (removed backends closed). The model: set after each success, unchanged by up to three consecutive failures, emptied by the fourth."),
    "C20": ("fault_enumeration", "3 C20", "complete enumeration of the connection-fault table on simulated TCP (write failing after k bytes, peer close, refused dial, accept-then-reset) against real FailOverClientTransport / TCPClientTransport / TCPBackend objects, plus the same faults end to end",
            "Every cell of {cached inbound connection: absent, healthy, failing on write, closed by the peer} x {reconnectable path: absent, fresh, stale failing once, refusing, resetting once, resetting always} and of the TCPBackend table is executed in every world for 1-3 messages with seeded sizes and failure offsets; per-connection byte logs and Send's result are judged: success iff the complete message was accepted exactly once, fallback to a fresh connection when one is available, error (and return) when none is, no write on a failed connection."),
}

NA = {
    "C14": "round-trip law of pure Parse*/String functions over a grammar: no schedule, clock, fault, interleaving or second party for a simulation to control (DESIGN.md section 4); what a relaying proxy makes of decoded headers is judged at the wire by C01/C02/C06/C13",
    "C16": "algebraic law of one pure function (GetDialog) over message pairs: no history, schedule, time or fault (DESIGN.md section 4); its behavioural consequence (same backend from either direction) is part of C04's workload",
}

m = {
    "version": 1,
    "setup_cmd": "bash /verif/setup.sh",
    "hooks": {
        "guard": "verif",
        "enable": "no hooks in /repo: every check rewrites a scratch copy of /repo's working tree with /verif/bin/simprep (rules R1-R8, DESIGN.md 2.1) and builds it with the harness files under -tags verif",
        "baseline_off_cmd": "cd /repo && go test -vet=off -count=1 ./...",
        "source_commits": [],
        "add_only": True,
    },
    "engines": [{
        "name": "detsim", "path": "/verif/sim",
        "serves_properties": sorted(CHECKS),
        "kind_free_text": "deterministic simulation with fault injection: seeded kernel deciding every goroutine interleaving, simulated UDP/TCP/DNS with loss, duplication, reordering, segmentation, short reads, connection faults, simulated clock (testing/synctest), one integer seed -> one replayable run, plan minimisation",
    }],
    "checks": [],
    "not_applicable": [],
    "notes": "All checks: python3 check.py <id> [--tier quick|thorough]; replay: python3 check.py <id> --replay <file>. Exit 0 held / 1 VIOLATION / 2 infrastructure. known_findings.json lists open findings (KF-*: printed as KNOWN-FINDING, exit 0) and fixed ones.",
}
for p in props:
    pid = p["id"]
    if pid in CHECKS:
        level, ref, tech, text = CHECKS[pid]
        m["checks"].append({
            "property_id": pid,
            "quick_cmd": "python3 /verif/check.py %s --tier quick" % pid,
            "thorough_cmd": "python3 /verif/check.py %s --tier thorough" % pid,
            "evidence_file": "/verif/evidence/%s.json" % pid,
            "replay_cmd_template": "python3 /verif/check.py %s --replay {path}" % pid,
            "engine": "detsim",
            "level_claimed": {"category": level, "text": text, "design_ref": "DESIGN.md section " + ref},
            "level_note": NOTE_COMMON,
            "technique": tech,
        })
    elif pid in NA:
        m["not_applicable"].append({"property_id": pid, "reason": NA[pid]})
    else:
        m["not_applicable"].append({"property_id": pid, "reason": "check not built yet (build in progress; the design claims it, see DESIGN.md section 3)"})
json.dump(m, open(os.path.join(V, "MANIFEST.json"), "w"), indent=1)
print("checks:", [c["property_id"] for c in m["checks"]])
