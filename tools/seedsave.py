#!/usr/bin/env python3
"""seedsave.py <prop><x> [<check>[,<check>...]]
Copies a confirmed seeded change from /tmp/mut/<prop>/<x> to /verif/seeded/<prop><x>/
(patch.diff, demonstration, meta.json) merging my own confirmation
(/tmp/mw/results/<name>*.json with verification) and the current detection
status of the given checks (default: the property's own check)."""
import glob, json, os, shutil, subprocess, sys

name = sys.argv[1]
prop, x = name[:3], name[3:]
checks = sys.argv[2].split(",") if len(sys.argv) > 2 else [prop]
src = "/tmp/mut/%s/%s" % (prop, x)
V = os.path.dirname(os.path.dirname(os.path.abspath(__file__)))
dst = "%s/seeded/%s" % (V, name)
os.makedirs(dst, exist_ok=True)
for f in os.listdir(src):
    if f.endswith(".diff") or f.endswith("_test.go") or f.endswith(".sh") or f.endswith(".go"):
        shutil.copy(os.path.join(src, f), dst)
meta = {}
try:
    meta = json.load(open(os.path.join(src, "meta.json")))
except Exception:
    pass
ver = None
for f in sorted(glob.glob("/tmp/mw/results/%s*.json" % name)):
    r = json.load(open(f))
    if "existing_tests_pass" in r:
        ver = r
if ver is None:
    print("no verification result for", name)
    sys.exit(1)
ok = ver.get("applies") and ver.get("builds") and ver.get("existing_tests_pass") and ver.get("demo_fails_with_patch") and ver.get("demo_passes_without_patch")
if not ok:
    print("verification incomplete for", name, {k: ver.get(k) for k in ("applies", "builds", "existing_tests_pass", "demo_fails_with_patch", "demo_passes_without_patch")})
    sys.exit(1)
det = {}
r = subprocess.run(["python3", os.path.join(V, "tools/trymut.py"), src, name + "_now", ",".join(checks), "--noverify"], capture_output=True, text=True)
now = json.load(open("/tmp/mw/results/%s_now.json" % name))
for c, res in now.get("checks", {}).items():
    det[c] = {"exit": res["exit"], "first_line": (res["lines"][0][:400] if res["lines"] else "")}
meta_out = {
    "property": prop,
    "title": meta.get("title", ""),
    "files_touched": meta.get("files_touched", []),
    "what_it_needs_to_manifest": meta.get("what_it_needs_to_manifest", ""),
    "why_realistic": meta.get("why_realistic", ""),
    "demo_cmd": meta.get("demo_cmd", ""),
    "origin": "independent sub-agent given only the property text and a scratch worktree of /repo",
    "confirmed_by_me": {
        "patch_applies_to_repo_head": True, "builds": True,
        "existing_suite_passes_with_patch": True, "existing_suite_seconds": ver.get("existing_tests_s"),
        "demo_fails_with_patch": True, "demo_passes_without_patch": True,
        "how": "tools/trymut.py: scratch worktree of /repo HEAD, git apply, go build, go test -vet=off -count=1 ./..., demo with and without the patch; then python3 check.py <id> --src <worktree>",
    },
    "detected_by": det,
}
json.dump(meta_out, open(os.path.join(dst, "meta.json"), "w"), indent=1)
print(name, {c: d["exit"] for c, d in det.items()})
