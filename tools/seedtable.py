#!/usr/bin/env python3
"""Writes /verif/seeded/README.md: one row per confirmed seeded change."""
import glob, json, os

V = os.path.dirname(os.path.dirname(os.path.abspath(__file__)))

rows = []
for d in sorted(glob.glob(V + "/seeded/*/")):
    try:
        m = json.load(open(os.path.join(d, "meta.json")))
    except Exception:
        continue
    name = os.path.basename(d.rstrip("/"))
    det = m.get("detected_by", {})
    caught = ", ".join("%s" % c for c, r in det.items() if r.get("exit") == 1) or "-"
    missed = ", ".join("%s" % c for c, r in det.items() if r.get("exit") not in (1,))
    first = ""
    for c, r in det.items():
        if r.get("exit") == 1:
            fl = r.get("first_line", "")
            i = fl.find("rule=")
            first = fl[i:i + 110] if i >= 0 else fl[:110]
            break
    rows.append((name, m.get("property", ""), (m.get("title") or "")[:110], (m.get("what_it_needs_to_manifest") or "")[:200], caught, first, m.get("strengthened", "")))
with open(V + "/seeded/README.md", "w") as f:
    f.write("# Seeded changes\n\nEach directory holds `patch.diff` (against /repo at the time it was written; `git apply --3way` if HEAD moved), the\nauthor's demonstration (`demo_test.go`: fails with the patch, passes without) and `meta.json` (what it breaks, what it needs in\norder to manifest, my confirmation, which check reports it and with which first report). All were written by independent\nsub-agents that saw only the property text and a scratch worktree. `strengthened` says what had to be added to the check\nbefore it reported the change (empty: reported by the check as it was).\n\n")
    f.write("| id | property | change | needs | reported by | first report | strengthened |\n|---|---|---|---|---|---|---|\n")
    for r in rows:
        f.write("| %s |\n" % " | ".join(str(x).replace("|", "\\|").replace("\n", " ") for x in r))
    f.write("\n%d seeded changes, %d reported by the check of their property (or the named one).\n" % (len(rows), sum(1 for r in rows if r[4] != "-")))
print(len(rows))
