#!/usr/bin/env python3
"""Sensitivity self-test: deliberate breaking edits (must be reported within
the quick budget) and property-preserving edits (must stay silent), each applied
to a scratch worktree of /repo's HEAD and checked with check.py --src.
Writes /verif/SENSITIVITY.md. Usage: sensitivity.py [ids...]"""
import json, os, subprocess, sys, shutil, time

ENV = dict(os.environ, GOFLAGS="-mod=mod", GOPROXY="off", GOSUMDB="off", GOTOOLCHAIN="local")
WT = "/tmp/sens-wt"

# (name, property, kind, file, old, new, what)
M = [
 # ---- C01
 ("c01-trim-name", "C01", "break", "message.go", "m.headers = append(m.headers, &Header{name: name, value: value})", "m.headers = append(m.headers, &Header{name: strings.ToLower(name), value: value})", "lower-case header names in AddHeader"),
 ("c01-cl-plus-one", "C01", "break", "message.go", 'k, _ = fmt.Fprintf(writer, "Content-Length: %d\\r\\n\\r\\n", len(m.body))', 'k, _ = fmt.Fprintf(writer, "Content-Length: %d\\r\\n\\r\\n", len(m.body)+1)', "emit len(body)+1"),
 ("c01-drop-empty-value", "C01", "break", "message.go", "\t\tif m.isSameHeader(header.name, \"Content-Length\") {\n\t\t\tcontinue\n\t\t}", "\t\tif m.isSameHeader(header.name, \"Content-Length\") || header.value == \"\" {\n\t\t\tcontinue\n\t\t}", "drop header fields with an empty value"),
 ("c01-first-bracket", "C01", "break", "name_addr.go", "\tpos1 := indexOfLAQuot(nameAddr)", "\tpos1 := strings.IndexByte(nameAddr, '<')", "addr-spec starts at the first '<' even inside the quoted display name (repair 1a14a96 partly undone)"),
 ("c01-addrspec-semicolon", "C01", "break", "to.go", "r.addrSpec, err = ParseAddrSpec(s[0:pos])", "r.addrSpec, err = ParseAddrSpec(s[0 : pos+1])", "the ';' behind a bracket-less To address goes to the URI parser (repair f4c299d undone for To)"),
 ("c01-preserve-builder", "C01", "preserve", "message.go", "\tbuf := bytes.NewBuffer(make([]byte, 0))\n\t_, err := m.Write(buf)\n\tif err != nil {\n\t\treturn nil, err\n\t}\n\n\treturn buf.Bytes(), nil", "\tvar buf bytes.Buffer\n\tbuf.Grow(512)\n\tif _, err := m.Write(&buf); err != nil {\n\t\treturn nil, err\n\t}\n\treturn buf.Bytes(), nil", "Bytes() through a pre-grown buffer"),
 # ---- C02
 ("c02-sentby-over-received", "C02", "break", "proxy.go", "\thost, err = viaParam.GetReceived()\n\tif err == nil {", "\thost, err = viaParam.GetReceived()\n\tif err == nil && false {", "prefer sent-by over received"),
 ("c02-ignore-rport", "C02", "break", "proxy.go", "\t\tport, err = viaParam.GetRPort()\n\t\tif err != nil {\n\t\t\tport = viaParam.GetPort()\n\t\t}", "\t\tport = viaParam.GetPort()", "ignore rport"),
 ("c02-pop-whole-line", "C02", "break", "message.go", "\tif via.Size() > 1 {\n\t\t_, err := via.PopViaParam()\n\t\treturn err\n\t} else {", "\tif via.Size() > 1 && false {\n\t\t_, err := via.PopViaParam()\n\t\treturn err\n\t} else {", "pop the whole header line when it held several entries"),
 ("c02-default-5061", "C02", "break", "via.go", "\tif vp.Transport == \"TLS\" {\n\t\treturn 5061\n\t}\n\treturn 5060", "\tif vp.Transport == \"TLS\" || vp.Transport == \"TCP\" {\n\t\treturn 5061\n\t}\n\treturn 5060", "default port 5061 for TCP Vias"),
 ("c02-untrimmed-via-param", "C02", "break", "via.go", "\t\t\t// blanks may surround the ';' and the ',' that delimit a parameter\n\t\t\tparam = strings.TrimSpace(param)\n", "", "Via parameters keep the blanks around ';' and ',' (repair 80e9a8d undone)"),
 # ---- C03
 ("c03-static-before-route", "C03", "break", "proxy.go", "\thost, port, transport, err = p.getNextRequestHopByRoute(msg)\n\tif err == nil {\n\t\treturn host, port, transport, err\n\t}\n\treturn p.getNextRequestHopByConfig(msg)", "\thost, port, transport, err = p.getNextRequestHopByConfig(msg)\n\tif err == nil {\n\t\treturn host, port, transport, err\n\t}\n\treturn p.getNextRequestHopByRoute(msg)", "static routes consulted before Route"),
 ("c03-any-port-is-mine", "C03", "break", "proxy.go", "sipUri.Host == msg.ReceivedFrom.GetAddress() && sipUri.GetPort() == msg.ReceivedFrom.GetPort()", "sipUri.Host == msg.ReceivedFrom.GetAddress()", "any port of the listener address designates the listener"),
 ("c03-user-ignored", "C03", "break", "proxy.go", "\t\t\tif hostName == name[pos+1:] && user == name[0:pos] {", "\t\t\tif hostName == name[pos+1:] {", "user part of a user@host service name ignored"),
 ("c03-preserve-switch", "C03", "preserve", "proxy.go", "\t\t} else if p.myName.isMyMessage(msg) {\n\t\t\tzap.L().Info(\"it is my request\")\n\t\t\tp.sendToBackend(msg)\n\t\t} else {", "\t\t} else if mine := p.myName.isMyMessage(msg); mine {\n\t\t\tzap.L().Info(\"it is my request\")\n\t\t\tp.sendToBackend(msg)\n\t\t} else {", "same decision through a local variable"),
 # ---- C04
 ("c04-bind-on-final-only", "C04", "break", "proxy.go", "\t\tcase \"INVITE\":\n\t\t\tdialog, _ := msg.GetDialog()\n\t\t\tif dialog != \"\" {", "\t\tcase \"INVITE\":\n\t\t\tdialog, _ := msg.GetDialog()\n\t\t\tif dialog != \"\" && msg.IsFinalResponse() {", "bind only on final responses"),
 ("c04-lose-pin-notify", "C04", "break", "proxy.go", "\tif method == \"NOTIFY\" {\n\t\tif v, err := msg.GetHeaderValue(\"Subscription-State\"); err == nil {\n\t\t\tif s, ok := v.(string); ok && s == \"terminated\" {", "\tif method == \"NOTIFY\" {\n\t\tif v, err := msg.GetHeaderValue(\"Subscription-State\"); err == nil {\n\t\t\tif s, ok := v.(string); ok && s != \"\" {", "any NOTIFY dissolves the pin"),
 ("c04-key-without-callid", "C04", "break", "dialog.go", 'return fmt.Sprintf("%s-%s-%s", d.callID, d.localTag, d.remoteTag)', 'return fmt.Sprintf("%s-%s", d.localTag, d.remoteTag)', "dialog key without the Call-ID (tags collide across calls only)"),
 # ---- C05
 ("c05-advance-twice", "C05", "break", "backend.go", "\trb.index = (rb.index + 1) % n\n\treturn rb.backends[rb.index].Send(msg)", "\trb.index = (rb.index + 2) % n\n\treturn rb.backends[rb.index].Send(msg)", "cursor advanced twice"),
 ("c05-map-only-remove", "C05", "break", "backend.go", "\t\t\t\tbackends := rb.backends[0:index]\n\t\t\t\tbackends = append(backends, rb.backends[index+1:]...)\n\t\t\t\trb.backends = backends\n\t\t\t\tbreak", "\t\t\t\t_ = index\n\t\t\t\tbreak", "removed from the map but not from the list"),
 ("c05-no-advance", "C05", "break", "backend.go", "\trb.index = (rb.index + 1) % n\n\treturn rb.backends[rb.index].Send(msg)", "\trb.index = rb.index % n\n\treturn rb.backends[rb.index].Send(msg)", "cursor not advanced"),
 # ---- C06
 ("c06-append-via", "C06", "break", "message.go", "\theaders = append(headers, m.headers[0:pos]...)\n\theaders = append(headers, &Header{name: \"Via\", value: via})\n\theaders = append(headers, m.headers[pos:]...)", "\t_ = pos\n\theaders = append(headers, m.headers...)\n\theaders = append(headers, &Header{name: \"Via\", value: via})", "new Via appended instead of prepended"),
 ("c06-rr-always", "C06", "break", "proxy.go", "\tif _, err := msg.GetHeader(\"Record-Route\"); err != nil && !p.mustRecordRoute {\n\t\treturn\n\t}", "", "Record-Route added unconditionally"),
 ("c06-no-cookie", "C06", "break", "util.go", 'return "z9hG4bK" + tmp[len(tmp)-1], nil', 'return "z9hG4" + tmp[len(tmp)-1], nil', "branch without the RFC 3261 cookie"),
 ("c06-via-on-unlearned", "C06", "break", "proxy.go", "\t\t\tif ok {\n\t\t\t\tp.addVia(msg, serverTrans)\n\t\t\t\tp.addRecordRoute(msg, serverTrans)\n\t\t\t}", "\t\t\tif !ok && len(p.items) > 0 && len(p.items[0].transports) > 0 {\n\t\t\t\tserverTrans, ok = p.items[0].transports[0], true\n\t\t\t}\n\t\t\tif ok {\n\t\t\t\tp.addVia(msg, serverTrans)\n\t\t\t\tp.addRecordRoute(msg, serverTrans)\n\t\t\t}", "Via inserted on the not-learned path too"),
 # ---- C07
 ("c07-stamp-sentby", "C07", "break", "message.go", "\tviaParam.SetReceived(peerAddr)", "\tviaParam.SetReceived(viaParam.Host)", "received stamped with the Via sent-by host"),
 ("c07-rport-always", "C07", "break", "message.go", '\tif viaParam.HasParam("rport") {', "\tif true {", "rport stamped always"),
 ("c07-invert-flag", "C07", "break", "main.go", "\t\t\t!listen.NoReceived,\n\t\t\tlisten.defRoute,", "\t\t\tlisten.NoReceived,\n\t\t\tlisten.defRoute,", "no-received inverted for the listen entry's transports"),
 # ---- C08
 ("c08-no-negative-check", "C08", "break", "message.go", "\tif contentLength < 0 {\n\t\treturn nil, errors.New(\"invalid negative Content-Length field\")\n\t}\n", "\tif contentLength < 0 {\n\t\tcontentLength = -contentLength\n\t}\n\tmsg.body = make([]byte, 0, contentLength)\n", "absurd Content-Length pre-allocated"),
 ("c08-break-on-error", "C08", "break", "transport.go", "\t\tu.msgBufPool.Free(sized_byte_array.b)\n\t\tif err == nil {\n\t\t\tsized_byte_array.msgHandler(msg)\n\t\t}", "\t\tu.msgBufPool.Free(sized_byte_array.b)\n\t\tif err != nil {\n\t\t\tbreak\n\t\t}\n\t\tsized_byte_array.msgHandler(msg)", "UDP parse loop ends at the first undecodable datagram"),
 ("c08-no-close", "C08", "break", "transport.go", "\t\tif err != nil {\n\t\t\tconn.Close()\n", "\t\tif err != nil {\n", "TCP connection with undecodable bytes not closed"),
 # ---- C09
 ("c09-pool-unlocked-free", "C09", "break", "byte_array_pool.go", "func (bp *ByteArrayPool) Free(b []byte) {\n\tbp.Lock()\n\tdefer bp.Unlock()\n", "func (bp *ByteArrayPool) Free(b []byte) {\n", "buffer pool Free without the lock"),
 ("c09-selflearn-unlocked-get", "C09", "break", "self_learn_route.go", "func (sl *SelfLearnRoute) GetRoute(ip string) (ServerTransport, bool) {\n\tsl.Lock()\n\tdefer sl.Unlock()\n", "func (sl *SelfLearnRoute) GetRoute(ip string) (ServerTransport, bool) {\n", "learned-route lookup without the lock"),
 ("c09-direct-backend-index", "C09", "break", "proxy.go", '\tp.backendChangeChannel <- &BackendChangeEvent{action: "add", backend: backend, parent: parent}', "\tp.backends[backend.GetAddress()] = &BackendWithParent{backend: backend, parent: parent}", "backend index written directly from the membership goroutine"),
 ("c09-preserve-extra-lock", "C09", "preserve", "backend.go", "func (rb *RoundRobinBackend) getBackendCount() int {\n\trb.Lock()\n\tdefer rb.Unlock()\n\treturn len(rb.backends)\n", "func (rb *RoundRobinBackend) getBackendCount() int {\n\trb.Lock()\n\tn := len(rb.backends)\n\trb.Unlock()\n\treturn n\n", "explicit unlock instead of defer"),
 # ---- C10
 ("c10-free-before-copy", "C10", "break", "transport.go", "\t\tmsg, err := ParseMessage(reader)\n\t\tu.msgBufPool.Free(sized_byte_array.b)", "\t\tu.msgBufPool.Free(sized_byte_array.b)\n\t\tsimulatedYield()\n\t\tmsg, err := ParseMessage(reader)", None),
 ("c10-shared-buffer", "C10", "break", "transport.go", "\tfor {\n\t\tbuf := u.msgBufPool.Alloc()\n\t\tn, peerAddr, err := u.conn.ReadFromUDP(buf)", "\tbuf := u.msgBufPool.Alloc()\n\tfor {\n\t\tn, peerAddr, err := u.conn.ReadFromUDP(buf)", "one receive buffer shared by all datagrams"),
 ("c10-alloc-no-shrink", "C10", "break", "byte_array_pool.go", "\tr := bp.pool[n-1]\n\tbp.pool = bp.pool[0 : n-1]\n\treturn r", "\tr := bp.pool[n-1]\n\treturn r", "pool hands the same buffer to two holders"),
 ("c10-whole-buffer", "C10", "break", "transport.go", "bytes.NewBuffer(sized_byte_array.b[:sized_byte_array.n])", "bytes.NewBuffer(sized_byte_array.b)", "parse past the datagram's end (the repaired defect)"),
 # ---- C11
 ("c11-new-reader-per-message", "C11", "break", "transport.go", "\tfor {\n\t\tmsg, err := ParseMessage(reader)\n\t\tif err != nil {\n\t\t\tconn.Close()", "\tfor {\n\t\treader = bufio.NewReader(conn)\n\t\tmsg, err := ParseMessage(reader)\n\t\tif err != nil {\n\t\t\tconn.Close()", "a new bufio.Reader per message"),
 ("c11-keepalive-error", "C11", "break", "message.go", "\tfirstLine := true\n\tskipWhiteSpace(reader)", "\tfirstLine := true", "keep-alive CRLF treated as an empty start line"),
 ("c11-body-read-once", "C11", "break", "message.go", "\tif _, err = io.CopyN(body, reader, int64(contentLength)); err != nil {\n\t\treturn nil, err\n\t}\n\tmsg.body = body.Bytes()", "\ttmp := make([]byte, contentLength)\n\tk, err := reader.Read(tmp)\n\tif err != nil && contentLength > 0 {\n\t\treturn nil, err\n\t}\n\tbody.Write(tmp[:k])\n\tmsg.body = body.Bytes()", "body taken with a single Read"),
 # ---- C12
 ("c12-key-without-transaction", "C12", "break", "transport.go", '\tif protocol == "tcp" && transId != "" {', '\tif protocol == "tcp" && transId != "" && false {', "connection registered per address only"),
 ("c12-remove-on-1xx", "C12", "break", "proxy.go", "\t\tif msg.IsFinalResponse() {\n\t\t\tp.clientTransMgr.RemoveTransport(transport, ip, port, transId)\n\t\t}", "\t\tif msg.IsResponse() {\n\t\t\tp.clientTransMgr.RemoveTransport(transport, ip, port, transId)\n\t\t}", "registration dropped on the first (provisional) response"),
 ("c12-bind-under-name", "C12", "break", "proxy.go", "\t\t\tif ip, err := p.resolver.GetIp(host); err == nil {\n\t\t\t\thost = ip\n\t\t\t}\n\t\t\ttransId, err := msg.GetClientTransaction()", "\t\t\ttransId, err := msg.GetClientTransaction()", "connection bound under the Via host as written (repair 361a329 undone)"),
 # ---- C13
 ("c13-ignore-port", "C13", "break", "proxy.go", "\tif sipUri.GetPort() == myPort && p.isSameAddress(sipUri.Host, myAddr) {", "\tif myPort >= 0 && p.isSameAddress(sipUri.Host, myAddr) {", "own entry consumed regardless of port"),
 ("c13-no-alias", "C13", "break", "proxy.go", "\tif sipUri.GetPort() == myPort && p.isSameAddress(sipUri.Host, myAddr) {", "\tif sipUri.GetPort() == myPort && sipUri.Host == myAddr {", "aliases not resolved"),
 ("c13-strip-when-keep", "C13", "break", "proxy.go", "\tif !P.keepNextHopRoute {\n\t\tmsg.PopRoute()\n\t}", "\tmsg.PopRoute()", "next hop stripped although configured to keep it"),
 ("c13-remove-whole-line", "C13", "break", "message.go", "\tif route.GetRouteParamCount() > 1 {\n\t\t_, err = route.PopRouteParam()\n\t} else {", "\tif route.GetRouteParamCount() > 1 && false {\n\t\t_, err = route.PopRouteParam()\n\t} else {", "whole Route line removed when only its first entry should go"),
 # ---- C15
 ("c15-before-instead-of-after", "C15", "break", "backend.go", "\t\tif value.expire.After(time.Now()) {", "\t\tif value.expire.Before(time.Now()) {", "expiry comparison flipped"),
 ("c15-min-instead-of-max", "C15", "break", "backend.go", "\tif float64(expireSeconds) > timeout.Seconds() {", "\tif expireSeconds > 0 && float64(expireSeconds) < timeout.Seconds() {", "min instead of max of timeout and Expires"),
 ("c15-never-sweep", "C15", "break", "backend.go", "\t\tdbb.cleanExpiredDialog()\n\t}\n}", "\t}\n}", "expired entries never swept"),
 ("c15-bye-keeps-pin", "C15", "break", "proxy.go", "\t\t\t\tp.dialogBasedBackends.RemoveDialog(dialog)\n\t\t\t}\n\t\t}\n\t}\n}", "\t\t\t}\n\t\t}\n\t}\n}", "BYE answer does not dissolve the pin"),
 ("c15-ms-for-s", "C15", "break", "backend.go", "\treturn &DialogBasedBackend{timeout: time.Duration(timeoutSeconds) * time.Second,", "\treturn &DialogBasedBackend{timeout: time.Duration(timeoutSeconds) * time.Millisecond,", "seconds / milliseconds mix-up"),
 # ---- C17
 ("c17-exact-case", "C17", "break", "message.go", "\tif strings.EqualFold(name_1, name_2) {", "\tif name_1 == name_2 {", "== instead of EqualFold"),
 ("c17-compact-table-entry", "C17", "break", "message.go", '\tcompactHdrNames.AddCompact("Call-ID", "i")\n', "", "one entry of the compact table dropped"),
 # ---- C18
 ("c18-default-before-wildcard", "C18", "break", "preconfig_route.go", "\tif item, ok := pcr.items[dest]; ok {\n\t\treturn item.protocol, item.host, item.port, nil\n\t}\n", "\tif item, ok := pcr.items[dest]; ok {\n\t\treturn item.protocol, item.host, item.port, nil\n\t}\n\tif item, ok := pcr.items[\"default\"]; ok {\n\t\treturn item.protocol, item.host, item.port, nil\n\t}\n", "default consulted before wildcards"),
 ("c18-unescaped-dot", "C18", "break", "preconfig_route.go", '\ts = strings.Replace(s, ".", "\\\\.", -1)\n', "", "'.' not escaped"),
 ("c18-unanchored", "C18", "break", "preconfig_route.go", 'return fmt.Sprintf("^%s$", strings.Replace(s, "*", ".*", -1))', 'return fmt.Sprintf("%s", strings.Replace(s, "*", ".*", -1))', "unanchored match"),
 ("c18-tls-5060", "C18", "break", "preconfig_route.go", '\t\tif strings.EqualFold("tls", protocol) {\n\t\t\tport = 5061\n\t\t}', "", "tls defaulting to 5060"),
 # ---- C19
 ("c19-failed-gt-2", "C19", "break", "resolver.go", "\t\t\tif entry.failed > 3 && len(entry.addrs) > 0 {", "\t\t\tif entry.failed > 2 && len(entry.addrs) > 0 {", "third failure empties the set"),
 ("c19-no-reset", "C19", "break", "resolver.go", "\t\t\tremovedAddrs := strArraySub(entry.addrs, addrs)\n\t\t\tentry.failed = 0", "\t\t\tremovedAddrs := strArraySub(entry.addrs, addrs)", "failure counter not reset on success"),
 ("c19-no-close", "C19", "break", "backend.go", "\t\t\t\tp.Close()\n", "", "removed backends not closed"),
 ("c19-no-notify", "C19", "break", "backend.go", "\trb.backendMap[backend.GetAddress()] = backend\n\trb.backendChangeListenerMgr.HandleBackendAdded(backend, rb)", "\trb.backendMap[backend.GetAddress()] = backend", "proxy's address index not notified of additions"),
 # ---- C20
 ("c20-nil-after-failed-write", "C20", "break", "transport.go", '\tzap.L().Error("Fail to send message to TCP server", zap.String("addr", t.addr))\n\treturn fmt.Errorf("fail to send message to %s", t.addr)', '\tzap.L().Error("Fail to send message to TCP server", zap.String("addr", t.addr))\n\treturn nil', "success reported after failed writes"),
 ("c20-keep-failed-conn", "C20", "break", "transport.go", "\t\tt.conn.Close()\n\t\tt.conn = nil\n\t}\n\tzap.L().Error(\"Fail to send message to TCP server\"", "\t\tt.conn.Close()\n\t}\n\tzap.L().Error(\"Fail to send message to TCP server\"", "failed connection closed but kept as the cached one"),
 ("c20-both", "C20", "break", "transport.go", "\t\terr := fct.primary.Send(msg)\n\t\tif err == nil {\n\t\t\treturn nil\n\t\t}", "\t\terr := fct.primary.Send(msg)\n\t\tif err == nil && fct.secondary == nil {\n\t\t\treturn nil\n\t\t}", "written on both primary and secondary"),
 ("c20-preserve-loop", "C20", "preserve", "backend.go", "\tfor i := 0; i < 2; i++ {\n\t\tif t.conn == nil {\n\t\t\tt.connect()\n\t\t}", "\tfor attempt := 1; attempt <= 2; attempt++ {\n\t\tif t.conn == nil {\n\t\t\tt.connect()\n\t\t}", "loop variable renamed"),
]


def sh(cmd, cwd=None, timeout=3000):
    r = subprocess.run(cmd, shell=True, cwd=cwd, env=ENV, capture_output=True, text=True, timeout=timeout)
    return r.returncode, r.stdout + r.stderr


def main():
    only = set(sys.argv[1:])
    rows = []
    for name, prop, kind, f, old, new, what in M:
        if what is None:
            continue
        if only and prop not in only and name not in only:
            continue
        sh("git -C /repo worktree remove --force %s" % WT)
        shutil.rmtree(WT, ignore_errors=True)
        rc, out = sh("git -C /repo worktree add -q --detach %s HEAD" % WT)
        path = os.path.join(WT, f)
        s = open(path).read()
        if old not in s:
            rows.append((name, prop, kind, what, "ANCHOR NOT FOUND", "", ""))
            print(name, "anchor not found")
            continue
        open(path, "w").write(s.replace(old, new, 1))
        rc, out = sh("go build ./... && rm -f sipproxy", cwd=WT)
        if rc != 0:
            rows.append((name, prop, kind, what, "does not build", out[-300:].replace("\n", " "), ""))
            print(name, "does not build", out[-300:])
            continue
        rc, out = sh("go test -vet=off -count=1 -skip Perf ./...", cwd=WT, timeout=600)
        tests = "pass" if rc == 0 else "FAIL"
        t0 = time.time()
        rc, out = sh("python3 /verif/check.py %s --src %s --budget 20" % (prop, WT))
        line = ""
        for l in out.splitlines():
            if l.startswith("violation:"):
                line = l[:230]
                break
        verdict = {0: "silent", 1: "reported", 2: "infrastructure"}.get(rc, str(rc))
        ok = (kind == "break" and rc == 1) or (kind == "preserve" and rc == 0)
        rows.append((name, prop, kind, what, verdict + ("" if ok else "  <-- UNEXPECTED"), tests, line))
        print(name, prop, kind, verdict, "OK" if ok else "UNEXPECTED", "%ds" % (time.time() - t0), flush=True)
    sh("git -C /repo worktree remove --force %s" % WT)
    shutil.rmtree(WT, ignore_errors=True)
    if only:
        return
    with open("/verif/SENSITIVITY.md", "w") as fh:
        fh.write("# Sensitivity self-test\n\nGenerated by `tools/sensitivity.py` against /repo HEAD %s. Each edit is applied to a scratch worktree,\nmust build, is run through the existing suite without the two performance tests (`tests` column) and through\n`check.py <id> --src <worktree> --budget 20` (quick tier, 20 s of exploration). *break* edits must be reported,\n*preserve* edits must stay silent.\n\n" % sh("git -C /repo rev-parse --short HEAD")[1].strip())
        fh.write("| edit | property | kind | what | check | tests | first report |\n|---|---|---|---|---|---|---|\n")
        for r in rows:
            fh.write("| %s | %s | %s | %s | %s | %s | %s |\n" % tuple(str(x).replace("|", "\\|") for x in r))
        nb = sum(1 for r in rows if r[2] == "break")
        rb = sum(1 for r in rows if r[2] == "break" and r[4].startswith("reported"))
        npv = sum(1 for r in rows if r[2] == "preserve")
        rp = sum(1 for r in rows if r[2] == "preserve" and r[4].startswith("silent"))
        fh.write("\nbreaking edits reported: %d of %d; preserving edits silent: %d of %d\n" % (rb, nb, rp, npv))


if __name__ == "__main__":
    main()
