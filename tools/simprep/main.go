// simprep rewrites the non-test Go files of a package directory into a
// scratch directory so that the program runs under the simulator:
//
//	R1 imports "net" -> verif/sim/simnet, "sync" -> verif/sim/simsync, "sync/atomic" -> verif/sim/simatomic (same local names)
//	R2 go f(a, b)      -> { f_, a_, b_ := f, a, b; simrt.Go(func(){ f_(a_, b_) }) }
//	R3 ch <- v / <-ch  -> simrt.Send / simrt.Recv / simrt.Recv2, range over channel
//	R4 select          -> switch simrt.Select(hasDefault, cases...)
//	R5 range over map  -> range simrt.MapKeys(m)
//	R6 time.Sleep      -> simrt.Sleep
//	R8 time.AfterFunc  -> simrt.AfterFunc (callback = simulated goroutine)
//	R7 make(chan T, N) -> make(chan T, simrt.ChanCap(N)) for literal N >= 16
//
// The rules are syntactic / type directed and know nothing about sipproxy.
package main

import (
	"bytes"
	"encoding/json"
	"flag"
	"fmt"
	"go/ast"
	"go/format"
	"go/token"
	"go/types"
	"os"
	"path/filepath"
	"sort"
	"strconv"
	"strings"

	"golang.org/x/tools/go/ast/astutil"
	"golang.org/x/tools/go/packages"
)

type report struct {
	Files      int            `json:"files"`
	Rules      map[string]int `json:"rules"`
	Unhandled  []string       `json:"unhandled"`
	GoVersion  string         `json:"go_version"`
	SourceDir  string         `json:"source_dir"`
	SourceHash string         `json:"source_hash,omitempty"`
}

var rep = report{Rules: map[string]int{}}

type rewriter struct {
	fset     *token.FileSet
	info     *types.Info
	needRT   bool
	tmp      int
	fileName string
}

func main() {
	src := flag.String("src", "/repo", "package directory to rewrite")
	dst := flag.String("dst", "", "output directory")
	repOut := flag.String("report", "", "write JSON report here")
	flag.Parse()
	if *dst == "" {
		fmt.Fprintln(os.Stderr, "simprep: -dst required")
		os.Exit(2)
	}
	cfg := &packages.Config{
		Mode: packages.NeedName | packages.NeedFiles | packages.NeedSyntax | packages.NeedTypes | packages.NeedTypesInfo,
		Dir:  *src,
		Env:  append(os.Environ(), "GOFLAGS=-mod=mod", "GOPROXY=off", "GOSUMDB=off"),
	}
	pkgs, err := packages.Load(cfg, ".")
	if err != nil {
		fmt.Fprintln(os.Stderr, "simprep: load:", err)
		os.Exit(2)
	}
	if len(pkgs) != 1 {
		fmt.Fprintln(os.Stderr, "simprep: expected one package, got", len(pkgs))
		os.Exit(2)
	}
	pkg := pkgs[0]
	if len(pkg.Errors) > 0 {
		for _, e := range pkg.Errors {
			fmt.Fprintln(os.Stderr, "simprep: source does not type-check:", e)
		}
		os.Exit(2)
	}
	rep.SourceDir = *src
	if err := os.MkdirAll(*dst, 0o755); err != nil {
		fmt.Fprintln(os.Stderr, err)
		os.Exit(2)
	}
	for i, f := range pkg.Syntax {
		_ = i
		name := pkg.Fset.Position(f.Pos()).Filename
		if strings.HasSuffix(name, "_test.go") {
			continue
		}
		rw := &rewriter{fset: pkg.Fset, info: pkg.TypesInfo, fileName: filepath.Base(name)}
		rw.file(f)
		var buf bytes.Buffer
		if err := format.Node(&buf, pkg.Fset, f); err != nil {
			fmt.Fprintln(os.Stderr, "simprep: print", name, err)
			os.Exit(2)
		}
		out := filepath.Join(*dst, filepath.Base(name))
		if err := os.WriteFile(out, buf.Bytes(), 0o644); err != nil {
			fmt.Fprintln(os.Stderr, err)
			os.Exit(2)
		}
		rep.Files++
	}
	sort.Strings(rep.Unhandled)
	if *repOut != "" {
		b, _ := json.MarshalIndent(rep, "", " ")
		os.WriteFile(*repOut, b, 0o644)
	}
	if len(rep.Unhandled) > 0 {
		for _, u := range rep.Unhandled {
			fmt.Fprintln(os.Stderr, "simprep: left native:", u)
		}
	}
}

func (rw *rewriter) pos(n ast.Node) string {
	p := rw.fset.Position(n.Pos())
	return fmt.Sprintf("%s:%d", filepath.Base(p.Filename), p.Line)
}

func (rw *rewriter) fresh(prefix string) *ast.Ident {
	rw.tmp++
	return ast.NewIdent(fmt.Sprintf("_sim%s%d", prefix, rw.tmp))
}

func rt(name string) ast.Expr {
	return &ast.SelectorExpr{X: ast.NewIdent("simrt"), Sel: ast.NewIdent(name)}
}

func call(fun ast.Expr, args ...ast.Expr) *ast.CallExpr {
	return &ast.CallExpr{Fun: fun, Args: args}
}

func (rw *rewriter) file(f *ast.File) {
	// R1
	for _, imp := range f.Imports {
		p, _ := strconv.Unquote(imp.Path.Value)
		switch p {
		case "net":
			imp.Path.Value = strconv.Quote("verif/sim/simnet")
			if imp.Name == nil {
				imp.Name = ast.NewIdent("net")
			}
			rep.Rules["R1-net"]++
		case "sync":
			imp.Path.Value = strconv.Quote("verif/sim/simsync")
			if imp.Name == nil {
				imp.Name = ast.NewIdent("sync")
			}
			rep.Rules["R1-sync"]++
		case "sync/atomic":
			imp.Path.Value = strconv.Quote("verif/sim/simatomic")
			if imp.Name == nil {
				imp.Name = ast.NewIdent("atomic")
			}
			rep.Rules["R1-atomic"]++
		}
	}
	for _, d := range f.Decls {
		if fd, ok := d.(*ast.FuncDecl); ok && fd.Body != nil {
			fd.Body = rw.stmt(fd.Body).(*ast.BlockStmt)
		} else if gd, ok := d.(*ast.GenDecl); ok {
			// function literals in package-level var initialisers
			for _, s := range gd.Specs {
				if vs, ok := s.(*ast.ValueSpec); ok {
					for i, v := range vs.Values {
						vs.Values[i] = rw.expr(v)
					}
				}
			}
		}
	}
	if rw.needRT {
		astutil.AddNamedImport(rw.fset, f, "simrt", "verif/sim/simrt")
	}
	// an import of "time" may have become unused (only time.Sleep was used)
	for _, imp := range f.Imports {
		p, _ := strconv.Unquote(imp.Path.Value)
		if p == "time" && !usesPkgIdent(f, importName(imp, "time")) {
			if imp.Name != nil {
				astutil.DeleteNamedImport(rw.fset, f, imp.Name.Name, "time")
			} else {
				astutil.DeleteImport(rw.fset, f, "time")
			}
		}
	}
}

func importName(imp *ast.ImportSpec, def string) string {
	if imp.Name != nil {
		return imp.Name.Name
	}
	return def
}

func usesPkgIdent(f *ast.File, name string) bool {
	used := false
	ast.Inspect(f, func(n ast.Node) bool {
		if se, ok := n.(*ast.SelectorExpr); ok {
			if id, ok := se.X.(*ast.Ident); ok && id.Name == name && id.Obj == nil {
				used = true
			}
		}
		return !used
	})
	return used
}

// expr rewrites an expression tree (R3 receive, R6, nested function literals).
func (rw *rewriter) expr(e ast.Expr) ast.Expr {
	if e == nil {
		return nil
	}
	res := astutil.Apply(e, func(c *astutil.Cursor) bool {
		switch n := c.Node().(type) {
		case *ast.FuncLit:
			n.Body = rw.stmt(n.Body).(*ast.BlockStmt)
			return false
		}
		return true
	}, func(c *astutil.Cursor) bool {
		switch n := c.Node().(type) {
		case *ast.UnaryExpr:
			if n.Op == token.ARROW {
				rw.needRT = true
				rep.Rules["R3-recv"]++
				c.Replace(call(rt("Recv"), n.X))
			}
		case *ast.CallExpr:
			if rw.isTimeFunc(n, "Sleep") {
				rw.needRT = true
				rep.Rules["R6-sleep"]++
				n.Fun = rt("Sleep")
			}
			// R8: time.AfterFunc(d, f) -> simrt.AfterFunc(d, f): the callback runs as a simulated goroutine that the
			// kernel starts at the instant the (fake-clock) timer fires; the *time.Timer returned is the real one
			if rw.isTimeFunc(n, "AfterFunc") {
				rw.needRT = true
				rep.Rules["R8-afterfunc"]++
				n.Fun = rt("AfterFunc")
			}
			// R7: make(chan T, N) with a literal N >= 16 -> make(chan T, simrt.ChanCap(N)): a world may scale the
			// program's queue capacities down, so that "queue full" paths run with tens of messages, not tens of thousands
			if id, ok := n.Fun.(*ast.Ident); ok && id.Name == "make" && len(n.Args) == 2 {
				if _, isChan := n.Args[0].(*ast.ChanType); isChan {
					if lit, ok := n.Args[1].(*ast.BasicLit); ok && lit.Kind == token.INT {
						if v, err := strconv.Atoi(lit.Value); err == nil && v >= 16 {
							if _, isBuiltin := rw.info.Uses[id].(*types.Builtin); isBuiltin {
								rw.needRT = true
								rep.Rules["R7-chancap"]++
								n.Args[1] = call(rt("ChanCap"), lit)
							}
						}
					}
				}
			}
		}
		return true
	})
	return res.(ast.Expr)
}

func (rw *rewriter) isTimeFunc(c *ast.CallExpr, name string) bool {
	se, ok := c.Fun.(*ast.SelectorExpr)
	if !ok || se.Sel.Name != name {
		return false
	}
	id, ok := se.X.(*ast.Ident)
	if !ok {
		return false
	}
	if pn, ok := rw.info.Uses[id].(*types.PkgName); ok {
		return pn.Imported().Path() == "time"
	}
	return false
}

func (rw *rewriter) exprs(es []ast.Expr) {
	for i := range es {
		es[i] = rw.expr(es[i])
	}
}

func (rw *rewriter) stmts(list []ast.Stmt) []ast.Stmt {
	out := make([]ast.Stmt, 0, len(list))
	for _, s := range list {
		out = append(out, rw.stmt(s))
	}
	return out
}

func isRecv(e ast.Expr) (*ast.UnaryExpr, bool) {
	for {
		p, ok := e.(*ast.ParenExpr)
		if !ok {
			break
		}
		e = p.X
	}
	u, ok := e.(*ast.UnaryExpr)
	if ok && u.Op == token.ARROW {
		return u, true
	}
	return nil, false
}

// stmt rewrites one statement and returns its replacement.
func (rw *rewriter) stmt(s ast.Stmt) ast.Stmt {
	switch n := s.(type) {
	case nil:
		return nil
	case *ast.BlockStmt:
		n.List = rw.stmts(n.List)
		return n
	case *ast.ExprStmt:
		n.X = rw.expr(n.X)
		return n
	case *ast.SendStmt:
		rw.needRT = true
		rep.Rules["R3-send"]++
		return &ast.ExprStmt{X: call(rt("Send"), rw.expr(n.Chan), rw.expr(n.Value))}
	case *ast.IncDecStmt:
		n.X = rw.expr(n.X)
		return n
	case *ast.AssignStmt:
		if len(n.Lhs) == 2 && len(n.Rhs) == 1 {
			if u, ok := isRecv(n.Rhs[0]); ok {
				rw.needRT = true
				rep.Rules["R3-recv2"]++
				rw.exprs(n.Lhs)
				n.Rhs[0] = call(rt("Recv2"), rw.expr(u.X))
				return n
			}
		}
		rw.exprs(n.Lhs)
		rw.exprs(n.Rhs)
		return n
	case *ast.GoStmt:
		return rw.goStmt(n)
	case *ast.DeferStmt:
		n.Call = rw.expr(n.Call).(*ast.CallExpr)
		return n
	case *ast.ReturnStmt:
		rw.exprs(n.Results)
		return n
	case *ast.BranchStmt, *ast.EmptyStmt:
		return n
	case *ast.LabeledStmt:
		inner := rw.stmt(n.Stmt)
		// a rewritten range/select may have become a block: keep the label on
		// the statement that break/continue target
		if b, ok := inner.(*ast.BlockStmt); ok && len(b.List) > 0 {
			last := b.List[len(b.List)-1]
			switch last.(type) {
			case *ast.ForStmt, *ast.RangeStmt, *ast.SwitchStmt:
				if _, wasBlock := n.Stmt.(*ast.BlockStmt); !wasBlock {
					b.List[len(b.List)-1] = &ast.LabeledStmt{Label: n.Label, Stmt: last}
					return b
				}
			}
		}
		n.Stmt = inner
		return n
	case *ast.IfStmt:
		n.Init = rw.stmt(n.Init)
		n.Cond = rw.expr(n.Cond)
		n.Body = rw.stmt(n.Body).(*ast.BlockStmt)
		if n.Else != nil {
			n.Else = rw.stmt(n.Else)
		}
		return n
	case *ast.CaseClause:
		rw.exprs(n.List)
		n.Body = rw.stmts(n.Body)
		return n
	case *ast.SwitchStmt:
		n.Init = rw.stmt(n.Init)
		n.Tag = rw.expr(n.Tag)
		n.Body = rw.stmt(n.Body).(*ast.BlockStmt)
		return n
	case *ast.TypeSwitchStmt:
		n.Init = rw.stmt(n.Init)
		n.Assign = rw.stmt(n.Assign)
		n.Body = rw.stmt(n.Body).(*ast.BlockStmt)
		return n
	case *ast.SelectStmt:
		return rw.selectStmt(n)
	case *ast.ForStmt:
		n.Init = rw.stmt(n.Init)
		n.Cond = rw.expr(n.Cond)
		n.Post = rw.stmt(n.Post)
		n.Body = rw.stmt(n.Body).(*ast.BlockStmt)
		return n
	case *ast.RangeStmt:
		return rw.rangeStmt(n)
	case *ast.DeclStmt:
		if gd, ok := n.Decl.(*ast.GenDecl); ok {
			for _, sp := range gd.Specs {
				if vs, ok := sp.(*ast.ValueSpec); ok {
					if len(vs.Names) == 2 && len(vs.Values) == 1 {
						if u, ok := isRecv(vs.Values[0]); ok {
							rw.needRT = true
							rep.Rules["R3-recv2"]++
							vs.Values[0] = call(rt("Recv2"), rw.expr(u.X))
							continue
						}
					}
					rw.exprs(vs.Values)
				}
			}
		}
		return n
	case *ast.CommClause:
		// only reached for selects left native
		n.Body = rw.stmts(n.Body)
		return n
	}
	rep.Unhandled = append(rep.Unhandled, fmt.Sprintf("%s: statement %T", rw.pos(s), s))
	return s
}

func (rw *rewriter) exprText(e ast.Expr) string {
	if _, ok := e.(*ast.FuncLit); ok {
		return "func@" + rw.pos(e)
	}
	var buf bytes.Buffer
	format.Node(&buf, rw.fset, e)
	s := buf.String()
	if len(s) > 60 {
		s = s[:60]
	}
	return s
}

// R2
func (rw *rewriter) goStmt(n *ast.GoStmt) ast.Stmt {
	rw.needRT = true
	rep.Rules["R2-go"]++
	c := n.Call
	var pre []ast.Stmt
	bind := func(e ast.Expr, prefix string) ast.Expr {
		id := rw.fresh(prefix)
		pre = append(pre, &ast.AssignStmt{Lhs: []ast.Expr{id}, Tok: token.DEFINE, Rhs: []ast.Expr{e}})
		return ast.NewIdent(id.Name)
	}
	fun := rw.expr(c.Fun)
	isBuiltinOrConv := false
	switch f := ast.Unparen(c.Fun).(type) {
	case *ast.Ident:
		if _, ok := rw.info.Uses[f].(*types.Builtin); ok {
			isBuiltinOrConv = true
		}
	}
	if tv, ok := rw.info.Types[c.Fun]; ok && tv.IsType() {
		isBuiltinOrConv = true
	}
	var newFun ast.Expr
	gname := &ast.BasicLit{Kind: token.STRING, Value: strconv.Quote(rw.exprText(c.Fun))}
	if fl, ok := fun.(*ast.FuncLit); ok && len(c.Args) == 0 {
		// go func(){...}()
		return &ast.ExprStmt{X: call(rt("Go"), gname, fl)}
	}
	if isBuiltinOrConv {
		newFun = fun
	} else {
		newFun = bind(fun, "f")
	}
	args := make([]ast.Expr, len(c.Args))
	for i, a := range c.Args {
		a = rw.expr(a)
		tv, ok := rw.info.Types[c.Args[i]]
		if ok && (tv.IsNil() || tv.Value != nil) {
			args[i] = a // untyped nil / constant: evaluated identically later
			continue
		}
		args[i] = bind(a, "a")
	}
	inner := &ast.CallExpr{Fun: newFun, Args: args, Ellipsis: c.Ellipsis}
	lit := &ast.FuncLit{Type: &ast.FuncType{Params: &ast.FieldList{}}, Body: &ast.BlockStmt{List: []ast.Stmt{&ast.ExprStmt{X: inner}}}}
	pre = append(pre, &ast.ExprStmt{X: call(rt("Go"), gname, lit)})
	return &ast.BlockStmt{List: pre}
}

// R4
func (rw *rewriter) selectStmt(n *ast.SelectStmt) ast.Stmt {
	rw.needRT = true
	rep.Rules["R4-select"]++
	var pre []ast.Stmt
	var caseArgs []ast.Expr
	var clauses []ast.Stmt
	hasDefault := false
	idx := 0
	for _, cs := range n.Body.List {
		cc := cs.(*ast.CommClause)
		body := rw.stmts(cc.Body)
		if cc.Comm == nil {
			hasDefault = true
			clauses = append(clauses, &ast.CaseClause{List: []ast.Expr{&ast.UnaryExpr{Op: token.SUB, X: &ast.BasicLit{Kind: token.INT, Value: "1"}}}, Body: body})
			continue
		}
		cv := rw.fresh("c")
		var head []ast.Stmt
		switch comm := cc.Comm.(type) {
		case *ast.SendStmt:
			pre = append(pre, &ast.AssignStmt{Lhs: []ast.Expr{cv}, Tok: token.DEFINE,
				Rhs: []ast.Expr{call(rt("SendCase"), rw.expr(comm.Chan), rw.expr(comm.Value))}})
		case *ast.ExprStmt:
			u, ok := isRecv(comm.X)
			if !ok {
				rep.Unhandled = append(rep.Unhandled, rw.pos(comm)+": select comm expr")
				return n
			}
			pre = append(pre, &ast.AssignStmt{Lhs: []ast.Expr{cv}, Tok: token.DEFINE,
				Rhs: []ast.Expr{call(rt("RecvCase"), rw.expr(u.X))}})
		case *ast.AssignStmt:
			u, ok := isRecv(comm.Rhs[0])
			if !ok {
				rep.Unhandled = append(rep.Unhandled, rw.pos(comm)+": select comm assign")
				return n
			}
			pre = append(pre, &ast.AssignStmt{Lhs: []ast.Expr{cv}, Tok: token.DEFINE,
				Rhs: []ast.Expr{call(rt("RecvCase"), rw.expr(u.X))}})
			rhs := []ast.Expr{&ast.SelectorExpr{X: ast.NewIdent(cv.Name), Sel: ast.NewIdent("V")}}
			if len(comm.Lhs) == 2 {
				rhs = append(rhs, &ast.SelectorExpr{X: ast.NewIdent(cv.Name), Sel: ast.NewIdent("Ok")})
			}
			lhs := make([]ast.Expr, len(comm.Lhs))
			for i := range comm.Lhs {
				lhs[i] = rw.expr(comm.Lhs[i])
			}
			head = append(head, &ast.AssignStmt{Lhs: lhs, Tok: comm.Tok, Rhs: rhs})
		}
		caseArgs = append(caseArgs, ast.NewIdent(cv.Name))
		clauses = append(clauses, &ast.CaseClause{
			List: []ast.Expr{&ast.BasicLit{Kind: token.INT, Value: strconv.Itoa(idx)}},
			Body: append(head, body...)})
		idx++
	}
	hd := "false"
	if hasDefault {
		hd = "true"
	}
	sw := &ast.SwitchStmt{
		Tag:  call(rt("Select"), append([]ast.Expr{ast.NewIdent(hd)}, caseArgs...)...),
		Body: &ast.BlockStmt{List: clauses},
	}
	return &ast.BlockStmt{List: append(pre, sw)}
}

func simpleOperand(e ast.Expr) bool {
	switch x := e.(type) {
	case *ast.Ident:
		return true
	case *ast.SelectorExpr:
		return simpleOperand(x.X)
	case *ast.ParenExpr:
		return simpleOperand(x.X)
	}
	return false
}

// R5 and range over channels
func (rw *rewriter) rangeStmt(n *ast.RangeStmt) ast.Stmt {
	t := rw.info.TypeOf(n.X)
	n.Body = rw.stmt(n.Body).(*ast.BlockStmt)
	if t == nil {
		n.X = rw.expr(n.X)
		return n
	}
	switch u := t.Underlying().(type) {
	case *types.Map:
		_ = u
		rw.needRT = true
		rep.Rules["R5-maprange"]++
		var pre []ast.Stmt
		m := rw.expr(n.X)
		if !simpleOperand(m) {
			id := rw.fresh("m")
			pre = append(pre, &ast.AssignStmt{Lhs: []ast.Expr{id}, Tok: token.DEFINE, Rhs: []ast.Expr{m}})
			m = ast.NewIdent(id.Name)
		}
		isBlank := func(e ast.Expr) bool {
			if e == nil {
				return true
			}
			id, ok := e.(*ast.Ident)
			return ok && id.Name == "_"
		}
		keyExpr := n.Key
		var head []ast.Stmt
		needVal := !isBlank(n.Value)
		loopKey := keyExpr
		tok := n.Tok
		if isBlank(keyExpr) {
			if !needVal {
				// for range m {}: iterate len(keys) times
				loopKey = rw.fresh("k")
				tok = token.DEFINE
				head = append(head, &ast.AssignStmt{Lhs: []ast.Expr{ast.NewIdent("_")}, Tok: token.ASSIGN, Rhs: []ast.Expr{ast.NewIdent(loopKey.(*ast.Ident).Name)}})
			} else {
				loopKey = rw.fresh("k")
				tok = token.DEFINE
			}
		}
		keyRef := func() ast.Expr {
			if id, ok := loopKey.(*ast.Ident); ok {
				return ast.NewIdent(id.Name)
			}
			return loopKey
		}
		okv := rw.fresh("ok")
		if needVal {
			vtok := n.Tok
			if vtok == token.ILLEGAL {
				vtok = token.DEFINE
			}
			if vtok == token.DEFINE {
				head = append(head, &ast.AssignStmt{Lhs: []ast.Expr{n.Value, okv}, Tok: token.DEFINE,
					Rhs: []ast.Expr{&ast.IndexExpr{X: m, Index: keyRef()}}})
			} else {
				head = append(head, &ast.DeclStmt{Decl: &ast.GenDecl{Tok: token.VAR, Specs: []ast.Spec{&ast.ValueSpec{Names: []*ast.Ident{okv}, Type: ast.NewIdent("bool")}}}})
				head = append(head, &ast.AssignStmt{Lhs: []ast.Expr{n.Value, ast.NewIdent(okv.Name)}, Tok: token.ASSIGN,
					Rhs: []ast.Expr{&ast.IndexExpr{X: m, Index: keyRef()}}})
			}
		} else {
			head = append(head, &ast.AssignStmt{Lhs: []ast.Expr{ast.NewIdent("_"), okv}, Tok: token.DEFINE,
				Rhs: []ast.Expr{&ast.IndexExpr{X: m, Index: keyRef()}}})
		}
		head = append(head, &ast.IfStmt{Cond: &ast.UnaryExpr{Op: token.NOT, X: ast.NewIdent(okv.Name)},
			Body: &ast.BlockStmt{List: []ast.Stmt{&ast.BranchStmt{Tok: token.CONTINUE}}}})
		loop := &ast.RangeStmt{Key: ast.NewIdent("_"), Value: loopKey, Tok: tok, X: call(rt("MapKeys"), m),
			Body: &ast.BlockStmt{List: append(head, n.Body.List...)}}
		if len(pre) == 0 {
			return loop
		}
		return &ast.BlockStmt{List: append(pre, loop)}
	case *types.Chan:
		rw.needRT = true
		rep.Rules["R3-rangechan"]++
		okv := rw.fresh("ok")
		ch := rw.expr(n.X)
		var pre []ast.Stmt
		if !simpleOperand(ch) {
			id := rw.fresh("ch")
			pre = append(pre, &ast.AssignStmt{Lhs: []ast.Expr{id}, Tok: token.DEFINE, Rhs: []ast.Expr{ch}})
			ch = ast.NewIdent(id.Name)
		}
		var head []ast.Stmt
		lhs := n.Key
		tok := n.Tok
		if lhs == nil {
			lhs = ast.NewIdent("_")
			tok = token.DEFINE
		}
		if tok == token.DEFINE {
			head = append(head, &ast.AssignStmt{Lhs: []ast.Expr{lhs, okv}, Tok: token.DEFINE, Rhs: []ast.Expr{call(rt("Recv2"), ch)}})
		} else {
			head = append(head, &ast.DeclStmt{Decl: &ast.GenDecl{Tok: token.VAR, Specs: []ast.Spec{&ast.ValueSpec{Names: []*ast.Ident{okv}, Type: ast.NewIdent("bool")}}}})
			head = append(head, &ast.AssignStmt{Lhs: []ast.Expr{lhs, ast.NewIdent(okv.Name)}, Tok: token.ASSIGN, Rhs: []ast.Expr{call(rt("Recv2"), ch)}})
		}
		head = append(head, &ast.IfStmt{Cond: &ast.UnaryExpr{Op: token.NOT, X: ast.NewIdent(okv.Name)},
			Body: &ast.BlockStmt{List: []ast.Stmt{&ast.BranchStmt{Tok: token.BREAK}}}})
		loop := &ast.ForStmt{Body: &ast.BlockStmt{List: append(head, n.Body.List...)}}
		if len(pre) == 0 {
			return loop
		}
		return &ast.BlockStmt{List: append(pre, loop)}
	}
	n.X = rw.expr(n.X)
	return n
}
