import sys,json,collections
rules=collections.Counter(); ex={}; infra=[]; stats=collections.Counter(); n=0
only=sys.argv[1] if len(sys.argv)>1 else None
for l in sys.stdin:
    if not l.startswith('SIMRESULT'): continue
    r=json.loads(l.split(' ',1)[1]); n+=1
    for v in r.get('viol',[]):
        if only and v['prop']!=only: continue
        k=(v['prop'],v['rule'],v.get('sig',''))
        rules[k]+=1
        ex.setdefault(k,(r['seed'],v['detail'][:700]))
    for i in r.get('infra',[]): infra.append((r['seed'],i[:800]))
    for k,v in (r.get('stats') or {}).items():
        if not k.startswith('unattrib'): stats[k]+=v
print('runs',n)
for k,c in sorted(rules.items()): print(c,k,'\n    ',ex[k])
print('INFRA',len(infra)); 
for i in infra[:5]: print(i)
print(dict(stats))
