#!/usr/bin/env python3
"""trymut.py <mutant-dir> <name> <check-id>[,<check-id>...] [--noverify]

Confirms a seeded change (patch.diff + demo_test.go + meta.json) in a scratch
worktree of /repo's HEAD and runs the given checks against it (check.py --src).
Never touches /repo's working tree. Writes /tmp/mw/results/<name>.json."""
import json, os, subprocess, sys, shutil, time, re

V = os.path.dirname(os.path.dirname(os.path.abspath(__file__)))

ENV = dict(os.environ, GOFLAGS="-mod=mod", GOPROXY="off", GOSUMDB="off", GOTOOLCHAIN="local")


def sh(cmd, cwd=None, timeout=1800):
    r = subprocess.run(cmd, shell=True, cwd=cwd, env=ENV, capture_output=True, text=True, timeout=timeout)
    return r.returncode, (r.stdout + r.stderr)


def main():
    d, name, checks = sys.argv[1], sys.argv[2], sys.argv[3].split(",")
    verify = "--noverify" not in sys.argv
    tier = "quick"
    for a in sys.argv:
        if a.startswith("--tier="):
            tier = a.split("=")[1]
    wt = "/tmp/mw/" + name
    os.makedirs("/tmp/mw/results", exist_ok=True)
    res = {"name": name, "dir": d, "checks": {}}
    sh("git -C /repo worktree remove --force %s" % wt)
    shutil.rmtree(wt, ignore_errors=True)
    rc, out = sh("git -C /repo worktree add -q --detach %s HEAD" % wt)
    if rc != 0:
        res["error"] = "worktree: " + out
        return finish(res, wt)
    try:
        rc, out = sh("git apply %s/patch.diff" % d, cwd=wt)
        if rc != 0:
            rc, out = sh("git apply --3way %s/patch.diff" % d, cwd=wt)
        res["applies"] = rc == 0
        if rc != 0:
            res["error"] = "patch does not apply: " + out[-500:]
            return finish(res, wt)
        rc, out = sh("go build ./... && rm -f sipproxy", cwd=wt)
        res["builds"] = rc == 0
        if rc != 0:
            res["error"] = "build: " + out[-800:]
            return finish(res, wt)
        if verify:
            meta = {}
            try:
                meta = json.load(open(os.path.join(d, "meta.json")))
            except Exception:
                pass
            demo = [f for f in os.listdir(d) if f.endswith("_test.go")]
            runpat = "TestDemo"
            m = re.search(r"-run\s+'?\"?([^'\" ]+)", meta.get("demo_cmd", ""))
            if m:
                runpat = m.group(1)
            for f in demo:
                shutil.copy(os.path.join(d, f), wt)
            rc, out = sh("go test -vet=off -count=1 -run '%s' . " % runpat, cwd=wt, timeout=900)
            res["demo_fails_with_patch"] = rc != 0
            res["demo_with_patch_tail"] = out[-600:]
            sh("git apply -R %s/patch.diff || git checkout -- ." % d, cwd=wt)
            rc, out = sh("go test -vet=off -count=1 -run '%s' . " % runpat, cwd=wt, timeout=900)
            res["demo_passes_without_patch"] = rc == 0
            res["demo_without_patch_tail"] = out[-300:]
            for f in demo:
                os.unlink(os.path.join(wt, f))
            sh("git checkout -- . && git apply %s/patch.diff || git apply --3way %s/patch.diff" % (d, d), cwd=wt)
            t0 = time.time()
            rc, out = sh("go test -vet=off -count=1 ./...", cwd=wt, timeout=1500)
            res["existing_tests_pass"] = rc == 0
            res["existing_tests_s"] = round(time.time() - t0)
            if rc != 0:
                res["existing_tests_tail"] = out[-800:]
        for c in checks:
            t0 = time.time()
            rc, out = sh("python3 %s/check.py %s --tier %s --src %s" % (V, c, tier, wt), timeout=3000)
            viol = [l for l in out.splitlines() if l.startswith("VIOLATION") or l.startswith("violation:")]
            res["checks"][c] = {"exit": rc, "wall_s": round(time.time() - t0), "lines": viol[:6], "tail": out[-700:] if rc not in (0, 1) else out.splitlines()[-1] if out.splitlines() else ""}
    finally:
        pass
    return finish(res, wt)


def finish(res, wt):
    sh("git -C /repo worktree remove --force %s" % wt)
    shutil.rmtree(wt, ignore_errors=True)
    json.dump(res, open("/tmp/mw/results/%s.json" % res["name"], "w"), indent=1)
    short = {k: v for k, v in res.items() if k not in ("demo_with_patch_tail", "demo_without_patch_tail", "checks")}
    print(json.dumps(short))
    for c, r in res.get("checks", {}).items():
        print("  check %s: exit %s (%ss) %s" % (c, r["exit"], r["wall_s"], (r["lines"][0][:300] if r["lines"] else r["tail"][:300])))


if __name__ == "__main__":
    main()
