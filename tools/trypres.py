#!/usr/bin/env python3
"""trypres.py <change-dir> <name> [<check>,...] [--budget=s]

A property-PRESERVING change (patch.diff + meta.json) in a scratch worktree of
/repo's HEAD: applies, builds, the existing suite passes - then every check
(or the given ones) runs against it with check.py --src. Every exit code other
than 0 is a problem of the machinery (1: false alarm, 2: harness / simulator
cannot cope with correct code) unless the change turns out not to preserve
behaviour after all. Writes /tmp/mw/results/<name>.json."""
import json, os, subprocess, sys, shutil, time

V = os.path.dirname(os.path.dirname(os.path.abspath(__file__)))
ENV = dict(os.environ, GOFLAGS="-mod=mod", GOPROXY="off", GOSUMDB="off", GOTOOLCHAIN="local")
ALL = "C01 C02 C03 C04 C05 C06 C07 C08 C09 C10 C11 C12 C13 C15 C17 C18 C19 C20".split()


def sh(cmd, cwd=None, timeout=1800):
    r = subprocess.run(cmd, shell=True, cwd=cwd, env=ENV, capture_output=True, text=True, timeout=timeout)
    return r.returncode, (r.stdout + r.stderr)


def main():
    d, name = sys.argv[1], sys.argv[2]
    checks = ALL
    budget = "10"
    for a in sys.argv[3:]:
        if a.startswith("--budget="):
            budget = a.split("=")[1]
        elif a.startswith("--"):
            continue
        else:
            checks = a.split(",")
    wt = "/tmp/mw/" + name
    os.makedirs("/tmp/mw/results", exist_ok=True)
    res = {"name": name, "dir": d, "checks": {}}
    sh("git -C /repo worktree remove --force %s" % wt)
    shutil.rmtree(wt, ignore_errors=True)
    rc, out = sh("git -C /repo worktree add -q --detach %s HEAD" % wt)
    try:
        rc, out = sh("git apply %s/patch.diff" % d, cwd=wt)
        res["applies"] = rc == 0
        if rc != 0:
            res["error"] = out[-400:]
            return
        rc, out = sh("go build ./... && rm -f sipproxy", cwd=wt)
        res["builds"] = rc == 0
        if rc != 0:
            res["error"] = out[-600:]
            return
        if "--notests" not in sys.argv:
            rc, out = sh("go test -vet=off -count=1 ./...", cwd=wt, timeout=1500)
            res["existing_tests_pass"] = rc == 0
            if rc != 0:
                res["error"] = out[-600:]
                return
        for c in checks:
            t0 = time.time()
            rc, out = sh("python3 %s/check.py %s --src %s --budget %s" % (V, c, wt, budget), timeout=3000)
            lines = [l for l in out.splitlines() if l.startswith("VIOLATION") or l.startswith("violation:") or l.startswith("INFRASTRUCTURE")]
            res["checks"][c] = {"exit": rc, "wall_s": round(time.time() - t0), "lines": lines[:4], "tail": "" if rc == 0 else out[-1500:]}
    finally:
        sh("git -C /repo worktree remove --force %s" % wt)
        shutil.rmtree(wt, ignore_errors=True)
        json.dump(res, open("/tmp/mw/results/%s.json" % name, "w"), indent=1)
        bad = {c: r["exit"] for c, r in res["checks"].items() if r["exit"] != 0}
        print(name, {k: res.get(k) for k in ("applies", "builds", "existing_tests_pass")}, "non-zero:", bad, res.get("error", "")[:300])


if __name__ == "__main__":
    main()
